package barrier

// C10 (barrier level): seal state and key rotation never lose or expose data.
//
//  B  BFS over histories of {put, rotate(+create-upgrade), rotate-root, seal,
//     unseal(right|wrong|truncated|previous root), reload-root-key,
//     reload-keyring, standby: check-upgrade / reload-root-key / reload-keyring /
//     follow} on an active barrier and a standby barrier sharing one physical
//     store; root barrier and a namespace barrier (metaPrefix).
//  C  crash after every physical-write prefix of Rotate and RotateRootKey, then a
//     fresh barrier instance must unseal with the old or the new root key and
//     read every earlier entry.

import (
	"bytes"
	"context"
	"encoding/binary"
	"errors"
	"fmt"
	"os"
	"sort"
	"strings"
	"testing"

	log "github.com/hashicorp/go-hclog"
	"github.com/openbao/openbao/sdk/v2/helper/verif/physx"
	"github.com/openbao/openbao/sdk/v2/helper/verif/vout"
	"github.com/openbao/openbao/sdk/v2/logical"
	"github.com/openbao/openbao/sdk/v2/physical"
	"github.com/openbao/openbao/sdk/v2/physical/inmem"
	"github.com/openbao/openbao/v2/internal/helper/namespace"
)

var c10ctx = context.Background()

type c10World struct {
	phys     physical.Backend
	active   *AESGCMBarrier
	standby  *AESGCMBarrier
	root     []byte   // current root key
	oldRoots [][]byte // previous root keys
	sealed   bool
	term     uint32
	pterm    uint32 // active term in the store (0 = same as term)
	// faultSeen: some operation reported a storage error.  From then on the live
	// barrier, the store and the standby may legitimately disagree (the caller was
	// told the operation failed); the oracles about reloads and the standby assume
	// successful operations and are suspended, the data / seal / key oracles stay.
	faultSeen bool
	model    map[string]string
	n        int
	ns       *namespace.Namespace
	// pendingUp: terms created by a key rotation whose second half (CreateUpgrade, the
	// record a standby follows) has not run yet: SealManager.RotateBarrierKey holds only a
	// read lock, two rotations may overlap (manual rotate vs. the auto-rotate check)
	pendingUp []uint32
}

func c10Raw(b SecurityBarrier) *AESGCMBarrier {
	switch x := b.(type) {
	case *AESGCMBarrier:
		return x
	case *TransactionalAESGCMBarrier:
		return x.AESGCMBarrier
	}
	panic(fmt.Sprintf("unexpected barrier type %T", b))
}

func c10New(nsMode bool, txn bool) (*c10World, error) {
	conf := map[string]string{}
	if !txn {
		conf["disable_transactions"] = "true"
	}
	inm, err := inmem.NewInmem(conf, log.NewNullLogger())
	if err != nil {
		return nil, err
	}
	w := &c10World{phys: physx.New(inm), model: map[string]string{}, term: 1}
	if nsMode {
		w.ns = &namespace.Namespace{ID: "nsid1", UUID: "11111111-2222-3333-4444-555555555555", Path: "ns1/"}
	}
	a := NewAESGCMBarrier(w.phys, w.ns)
	key, err := a.GenerateKey()
	if err != nil {
		return nil, err
	}
	if err := a.Initialize(c10ctx, key, nil); err != nil {
		return nil, err
	}
	if err := a.Unseal(c10ctx, key); err != nil {
		return nil, err
	}
	w.root = key
	w.active = c10Raw(a)
	s := NewAESGCMBarrier(w.phys, w.ns)
	if err := s.Unseal(c10ctx, key); err != nil {
		return nil, err
	}
	w.standby = c10Raw(s)
	return w, nil
}

type c10Op struct {
	Kind string `json:"k"`
	Arg  string `json:"a,omitempty"`
}

func (o c10Op) String() string {
	if o.Arg != "" {
		return o.Kind + "(" + o.Arg + ")"
	}
	return o.Kind
}

var c10Alphabet = []c10Op{
	{"put", "a"}, {"put", "b"}, {"rotate", ""}, {"rotate-root", ""}, {"seal", ""},
	{"unseal", "right"}, {"unseal", "wrong"}, {"unseal", "truncated"}, {"unseal", "previous-root"},
	{"reload-root-key", ""}, {"reload-keyring", ""},
	{"standby", "check-upgrade"}, {"standby", "reload-root-key"}, {"standby", "reload-keyring"}, {"standby", "follow"},
	// the same operations with their k-th storage operation failing once; the
	// process SURVIVES the error (unlike the crash points of part C)
	{"rotate!", "1"}, {"rotate!", "2"}, {"rotate!", "3"}, {"rotate-root!", "1"}, {"rotate-root!", "2"},
	// a key rotation in its two halves, so that rotations overlap: begin = Rotate, finish =
	// CreateUpgrade of the oldest / of the newest rotation still lacking it
	{"rotate-begin", ""}, {"rotate-finish", "oldest"}, {"rotate-finish", "newest"},
	// two overlapping rotations completed (composite, so that "then the standby follows" is
	// within the depth bound): Rotate, Rotate, then the two CreateUpgrade calls in either order
	{"rotate-overlapped", "oldest-first"}, {"rotate-overlapped", "newest-first"},
}

// persisted opens a fresh barrier over the same store with the given root key
// and reports the active term found there (0 = does not unseal).
func (w *c10World) persistedTerm(root []byte) uint32 {
	f := NewAESGCMBarrier(w.phys, w.ns)
	if err := f.Unseal(c10ctx, append([]byte{}, root...)); err != nil {
		return 0
	}
	kr, _ := c10Raw(f).Keyring()
	if kr == nil {
		return 0
	}
	return kr.ActiveTerm()
}

func isSealedErr(err error) bool { return err != nil && errors.Is(err, ErrBarrierSealed) }

// keyringEqual compares term->key material and root key.
func c10KeyringEqual(a, b *Keyring) string {
	if a == nil || b == nil {
		return "keyring is nil"
	}
	if a.ActiveTerm() != b.ActiveTerm() {
		return fmt.Sprintf("active term %d vs %d", a.ActiveTerm(), b.ActiveTerm())
	}
	if !bytes.Equal(a.RootKey(), b.RootKey()) {
		return "root keys differ"
	}
	for t := uint32(1); t <= a.ActiveTerm(); t++ {
		ka, kb := a.TermKey(t), b.TermKey(t)
		if (ka == nil) != (kb == nil) || (ka != nil && !bytes.Equal(ka.Value, kb.Value)) {
			return fmt.Sprintf("key of term %d differs", t)
		}
	}
	return ""
}

// subsetOK: every key the standby holds equals the active's key for that term.
func c10StandbySane(active, standby *Keyring) string {
	if standby == nil {
		return ""
	}
	for t := uint32(1); t <= standby.ActiveTerm(); t++ {
		ks := standby.TermKey(t)
		if ks == nil {
			continue
		}
		ka := active.TermKey(t)
		if ka == nil || !bytes.Equal(ka.Value, ks.Value) {
			return fmt.Sprintf("standby holds a key for term %d that the active node never had", t)
		}
	}
	return ""
}

// step applies one op and the per-step oracle; returns (sig, msg).
func (w *c10World) step(op c10Op) (string, string) {
	b := w.active
	switch op.Kind {
	case "put":
		w.n++
		val := fmt.Sprintf("v%d", w.n)
		err := b.Put(c10ctx, &logical.StorageEntry{Key: "data/" + op.Arg, Value: []byte(val)})
		if w.sealed {
			if !isSealedErr(err) {
				return "sealed-barrier-served-write", fmt.Sprintf("put while sealed returned %v", err)
			}
			return "", ""
		}
		if err != nil {
			return "put-failed", fmt.Sprintf("put on an unsealed barrier failed: %v", err)
		}
		w.model["data/"+op.Arg] = val
		// the new record carries the newest term
		metaKey := "data/" + op.Arg
		pe, err := physx.Ctl(w.phys).Snapshot()[metaKey], error(nil)
		_ = err
		if len(pe) >= 4 {
			if t := binary.BigEndian.Uint32(pe[:4]); t != w.term {
				return "write-not-under-newest-term", fmt.Sprintf("new write is under term %d, newest term is %d", t, w.term)
			}
		}
	case "rotate":
		if w.sealed {
			if _, err := b.Rotate(c10ctx); !isSealedErr(err) {
				return "sealed-barrier-rotated", fmt.Sprintf("rotate while sealed returned %v", err)
			}
			return "", ""
		}
		// what SealManager.RotateBarrierKey does: Rotate + CreateUpgrade(newTerm)
		nt, err := b.Rotate(c10ctx)
		if err != nil {
			return "rotate-failed", err.Error()
		}
		if err := b.CreateUpgrade(c10ctx, nt); err != nil {
			return "create-upgrade-failed", err.Error()
		}
		w.term = nt
		w.pterm = nt
	case "rotate-begin":
		if w.sealed {
			return "", ""
		}
		nt, err := b.Rotate(c10ctx)
		if err != nil {
			return "rotate-failed", err.Error()
		}
		w.term, w.pterm = nt, nt
		w.pendingUp = append(w.pendingUp, nt)
	case "rotate-overlapped":
		if w.sealed || len(w.pendingUp) > 0 {
			return "", ""
		}
		t1, err := b.Rotate(c10ctx)
		if err != nil {
			return "rotate-failed", err.Error()
		}
		t2, err := b.Rotate(c10ctx)
		if err != nil {
			return "rotate-failed", err.Error()
		}
		w.term, w.pterm = t2, t2
		order := []uint32{t1, t2}
		if op.Arg == "newest-first" {
			order = []uint32{t2, t1}
		}
		for _, nt := range order {
			if err := b.CreateUpgrade(c10ctx, nt); err != nil {
				return "create-upgrade-failed", err.Error()
			}
		}
	case "rotate-finish":
		if w.sealed || len(w.pendingUp) == 0 {
			return "", ""
		}
		i := 0
		if op.Arg == "newest" {
			i = len(w.pendingUp) - 1
		}
		nt := w.pendingUp[i]
		w.pendingUp = append(append([]uint32{}, w.pendingUp[:i]...), w.pendingUp[i+1:]...)
		if err := b.CreateUpgrade(c10ctx, nt); err != nil {
			return "create-upgrade-failed", err.Error()
		}
	case "rotate!", "rotate-root!":
		if w.sealed {
			return "", ""
		}
		k := int(op.Arg[0] - '0')
		ctl := physx.Ctl(w.phys)
		ctl.FailAt("faulted", k)
		ctl.SetTag("faulted")
		var err error
		var nk []byte
		var nt uint32
		if op.Kind == "rotate!" {
			nt, err = b.Rotate(c10ctx)
			if err == nil {
				_ = b.CreateUpgrade(c10ctx, nt) // a missing upgrade record only costs the standby a keyring reload
			}
		} else {
			nk, err = b.GenerateKey()
			if err != nil {
				return "harness", err.Error()
			}
			err = b.RotateRootKey(c10ctx, nk)
		}
		ctl.SetTag("")
		ctl.FailAt("faulted", 1<<30)
		// The store is the truth.  After an operation that REPORTED an error the caller
		// may hold the previous or the new root key; the statement asks that "a currently
		// valid key" keeps opening everything, so: at least one root key that was ever in
		// force (or was just proposed) must open the store; that one is "valid" from now on.
		if err != nil {
			w.faultSeen = true
			cands := [][]byte{w.root}
			if nk != nil {
				cands = append(cands, nk)
			}
			for i := len(w.oldRoots) - 1; i >= 0; i-- {
				cands = append(cands, w.oldRoots[i])
			}
			var valid []byte
			for _, c := range cands {
				if w.persistedTerm(c) != 0 {
					valid = c
					break
				}
			}
			if valid == nil {
				return "store-unsealable-after-failed-operation", fmt.Sprintf("after %s with storage op %d failing (%v) no root key that was ever in force opens the store", op.Kind, k, err)
			}
			if !bytes.Equal(valid, w.root) {
				var olds [][]byte
				for _, o := range append(w.oldRoots, w.root) {
					if !bytes.Equal(o, valid) {
						olds = append(olds, o)
					}
				}
				w.oldRoots = olds
				w.root = append([]byte{}, valid...)
			}
		} else if op.Kind == "rotate-root!" {
			w.oldRoots = append(w.oldRoots, w.root)
			w.root = nk
		}
		pt := w.persistedTerm(w.root)
		if pt == 0 {
			return "store-unsealable-after-failed-rotation", fmt.Sprintf("after %s with storage op %d failing (%v) the store does not unseal with the valid root key", op.Kind, k, err)
		}
		if err == nil && op.Kind == "rotate!" && pt != nt {
			return "rotation-not-persisted", fmt.Sprintf("Rotate returned term %d without error, the store holds active term %d", nt, pt)
		}
		// After a rotation that REPORTED an error the live barrier and the store may
		// legitimately disagree about the active term (e.g. keyring written, root-key
		// record not): "newest term" is then whatever the live barrier uses until the
		// next unseal / keyring reload, which adopts the store's term.  What must hold
		// regardless is that nothing written meanwhile is lost (invariant: entry-lost).
		w.pterm = pt
		w.term = pt
		if kr, _ := b.Keyring(); err != nil && kr != nil {
			w.term = kr.ActiveTerm()
		}
	case "rotate-root":
		if w.sealed {
			return "", "" // would dereference the nil keyring: the API layer never calls it while sealed
		}
		nk, err := b.GenerateKey()
		if err != nil {
			return "harness", err.Error()
		}
		if err := b.RotateRootKey(c10ctx, nk); err != nil {
			return "rotate-root-failed", err.Error()
		}
		w.oldRoots = append(w.oldRoots, w.root)
		w.root = nk
	case "seal":
		if w.sealed {
			return "", "" // Seal on a sealed barrier dereferences the nil keyring; Core guards it
		}
		if w.faultSeen {
			// After an operation that reported a storage error the live barrier and the store
			// may disagree about the root key, and every later operation that persists the
			// keyring (a rotation) writes it under the key the LIVE barrier holds: which key
			// opens the store can change again. The store is the truth at the moment everything
			// is sealed: some root key that was ever in force must open it; that one is the
			// valid key from now on (found by the C08-style alphabet extension of round 4: the
			// model used to keep the key determined right after the failed call).
			cands := append([][]byte{w.root}, w.oldRoots...)
			var valid []byte
			for _, c := range cands {
				if w.persistedTerm(c) != 0 {
					valid = c
					break
				}
			}
			if valid == nil {
				return "store-unsealable-after-failed-operation", "before sealing, after an earlier operation reported a storage error: no root key that was ever in force opens the store"
			}
			if !bytes.Equal(valid, w.root) {
				var olds [][]byte
				for _, o := range append(append([][]byte{}, w.oldRoots...), w.root) {
					if !bytes.Equal(o, valid) {
						olds = append(olds, o)
					}
				}
				w.oldRoots = olds
				w.root = append([]byte{}, valid...)
			}
		}
		if err := b.Seal(); err != nil {
			return "seal-failed", err.Error()
		}
		w.sealed = true
	case "unseal":
		var key []byte
		switch op.Arg {
		case "right":
			key = append([]byte{}, w.root...)
		case "wrong":
			key = bytes.Repeat([]byte{0x42}, 32)
		case "truncated":
			key = append([]byte{}, w.root[:16]...)
		case "previous-root":
			if len(w.oldRoots) == 0 {
				return "", ""
			}
			key = append([]byte{}, w.oldRoots[len(w.oldRoots)-1]...)
		}
		err := b.Unseal(c10ctx, key)
		if !w.sealed {
			return "", "" // no-op on an unsealed barrier
		}
		if op.Arg == "right" {
			if err != nil {
				return "correct-key-rejected", fmt.Sprintf("unseal with the current root key failed: %v", err)
			}
			w.sealed = false
			if w.pterm != 0 {
				w.term = w.pterm
			}
		} else if err == nil {
			return "wrong-key-unsealed", fmt.Sprintf("unseal(%s) succeeded", op.Arg)
		} else if !b.Sealed() {
			return "wrong-key-left-unsealed", fmt.Sprintf("unseal(%s) failed (%v) but the barrier is not sealed", op.Arg, err)
		}
	case "reload-root-key":
		if w.sealed {
			return "", ""
		}
		if err := b.ReloadRootKey(c10ctx); err != nil {
			if w.faultSeen {
				return w.invariant()
			}
			return "reload-root-key-failed", err.Error()
		}
	case "reload-keyring":
		if w.sealed {
			return "", ""
		}
		if err := b.ReloadKeyring(c10ctx); err != nil {
			if w.faultSeen {
				return w.invariant()
			}
			return "reload-keyring-failed", err.Error()
		}
		if w.pterm != 0 {
			w.term = w.pterm
		}
	case "standby":
		if w.faultSeen || len(w.pendingUp) > 0 {
			// (a rotation still lacking its upgrade record is in progress: the chain a standby
			// follows is incomplete by design until it finishes)
			return w.invariant()
		}
		s := w.standby
		switch op.Arg {
		case "check-upgrade":
			_, _, _ = s.CheckUpgrade(c10ctx)
		case "reload-root-key":
			_ = s.ReloadRootKey(c10ctx)
		case "reload-keyring":
			_ = s.ReloadKeyring(c10ctx)
		case "follow":
			// Core.performKeyUpgrades: loop CheckUpgrade until false -> ReloadRootKey -> ReloadKeyring
			for i := 0; i < 64; i++ {
				did, _, err := s.CheckUpgrade(c10ctx)
				if err != nil {
					return "standby-check-upgrade-failed", err.Error()
				}
				if !did {
					break
				}
			}
			if err := s.ReloadRootKey(c10ctx); err != nil {
				return "standby-reload-root-key-failed", err.Error()
			}
			if err := s.ReloadKeyring(c10ctx); err != nil {
				return "standby-reload-keyring-failed", err.Error()
			}
			if !w.sealed {
				ak, _ := w.active.Keyring()
				sk, _ := s.Keyring()
				if msg := c10KeyringEqual(ak, sk); msg != "" {
					return "standby-keyring-differs", "after the upgrade path the standby's keyring differs from the active node's: " + msg
				}
			}
		}
		if !w.sealed {
			ak, _ := w.active.Keyring()
			sk, _ := s.Keyring()
			if msg := c10StandbySane(ak, sk); msg != "" {
				return "standby-wrong-key", msg
			}
		}
	}
	return w.invariant()
}

func (w *c10World) invariant() (string, string) {
	b := w.active
	if w.sealed {
		if _, err := b.Get(c10ctx, "data/a"); !isSealedErr(err) {
			return "sealed-barrier-served-read", fmt.Sprintf("get while sealed returned %v", err)
		}
		if err := b.Delete(c10ctx, "data/a"); !isSealedErr(err) {
			return "sealed-barrier-served-delete", fmt.Sprintf("delete while sealed returned %v", err)
		}
		if _, err := b.List(c10ctx, "data/"); !isSealedErr(err) {
			return "sealed-barrier-served-list", fmt.Sprintf("list while sealed returned %v", err)
		}
		if _, err := b.ListPage(c10ctx, "data/", "", 10); !isSealedErr(err) {
			return "sealed-barrier-served-list", fmt.Sprintf("listpage while sealed returned %v", err)
		}
		if _, err := b.Encrypt(c10ctx, "k", []byte("x")); !isSealedErr(err) {
			return "sealed-barrier-encrypts", fmt.Sprintf("encrypt while sealed returned %v", err)
		}
		if _, err := b.Decrypt(c10ctx, "k", []byte("0123456789012345678901234567890123456789")); !isSealedErr(err) {
			return "sealed-barrier-decrypts", fmt.Sprintf("decrypt while sealed returned %v", err)
		}
		if b.keyring != nil || len(b.cache) != 0 {
			return "sealed-barrier-holds-keys", fmt.Sprintf("sealed barrier still holds key material (keyring!=nil: %v, cached AEADs: %d)", b.keyring != nil, len(b.cache))
		}
		if !b.Sealed() {
			return "sealed-flag", "model says sealed, barrier says unsealed"
		}
		return "", ""
	}
	for k, v := range w.model {
		e, err := b.Get(c10ctx, k)
		if err != nil || e == nil || string(e.Value) != v {
			return "entry-lost", fmt.Sprintf("entry %s written earlier (= %q) now reads (%v, %v)", k, v, e, err)
		}
	}
	ks, err := b.List(c10ctx, "data/")
	if err != nil {
		return "list-failed", err.Error()
	}
	sort.Strings(ks)
	var want []string
	for k := range w.model {
		want = append(want, strings.TrimPrefix(k, "data/"))
	}
	sort.Strings(want)
	if fmt.Sprint(ks) != fmt.Sprint(want) {
		return "list-differs", fmt.Sprintf("list = %v, model %v", ks, want)
	}
	if kr, _ := b.Keyring(); kr == nil || kr.ActiveTerm() != w.term {
		return "active-term", fmt.Sprintf("active term differs from model term %d", w.term)
	}
	return "", ""
}

func (w *c10World) canon() string {
	ks := make([]string, 0, len(w.model))
	for k := range w.model {
		ks = append(ks, k)
	}
	sort.Strings(ks)
	// the term each entry is stored under is part of the state: whether an entry
	// survives depends on whether ITS term's key is in the persisted keyring
	snap := physx.Ctl(w.phys).Snapshot()
	for i, k := range ks {
		if pe := snap[k]; len(pe) >= 4 {
			ks[i] = fmt.Sprintf("%s@%d", k, binary.BigEndian.Uint32(pe[:4]))
		}
	}
	st, _ := w.standby.Keyring()
	sterm := uint32(0)
	sroot := false
	if st != nil {
		sterm = st.ActiveTerm()
		sroot = bytes.Equal(st.RootKey(), w.root)
	}
	return fmt.Sprintf("fault=%v sealed=%v term=%d stored=%d roots=%d keys=%v standbyTerm=%d standbyRootCurrent=%v pendingUpgrades=%v", w.faultSeen, w.sealed, w.term, w.pterm, len(w.oldRoots), ks, sterm, sroot, w.pendingUp)
}

func c10Replay(nsMode, txn bool, hist []c10Op) (w *c10World, sig, msg string) {
	defer func() {
		if r := recover(); r != nil {
			sig, msg = "panic", fmt.Sprintf("panic: %v", r)
		}
	}()
	w, err := c10New(nsMode, txn)
	if err != nil {
		return nil, "harness", err.Error()
	}
	for i, op := range hist {
		if s, m := w.step(op); s != "" {
			return w, s, fmt.Sprintf("history %v step %d (%s): %s", hist, i, op, m)
		}
	}
	return w, "", ""
}

type c10Art struct {
	Scenario string  `json:"scenario"`
	NS       bool    `json:"ns"`
	Txn      bool    `json:"txn"`
	Hist     []c10Op `json:"hist"`
	Op       string  `json:"op,omitempty"`
	J        int     `json:"j,omitempty"`
}

func TestVerifC10Barrier(t *testing.T) {
	res := vout.New("C10", "barrier")
	defer func() {
		if err := res.Write(); err != nil {
			t.Fatal(err)
		}
	}()
	if vout.ReplayPath() != "" {
		var a c10Art
		if _, err := vout.LoadReplay(&a); err != nil {
			t.Fatal(err)
		}
		if a.Scenario == "history" {
			if _, sig, msg := c10Replay(a.NS, a.Txn, a.Hist); sig != "" && sig != "harness" {
				res.Violate("c10:barrier:"+sig, msg, a)
			}
		}
		return
	}
	depth := 5
	if vout.Thorough() {
		depth = 6
	}
	res.Bound("history_depth", depth)
	only := os.Getenv("VERIF_PART")
	count := 0
	if only == "" || only == "B" {
		for _, nsMode := range []bool{false, true} {
			for _, txn := range []bool{true, false} {
				if !txn && !vout.Thorough() && nsMode {
					continue
				}
				seen := map[string]bool{}
				frontier := [][]c10Op{nil}
				for d := 0; d < depth; d++ {
					var next [][]c10Op
					for _, h := range frontier {
						for _, op := range c10Alphabet {
							count++
							last := d == depth-1
							if last && !vout.Mine(count) {
								continue
							}
							hh := append(append([]c10Op{}, h...), op)
							w, sig, msg := c10Replay(nsMode, txn, hh)
							res.Add("transitions", 1)
							res.Add("executions", 1)
							if sig == "harness" {
								t.Fatalf("harness: %s", msg)
							}
							if sig != "" {
								if last || vout.Mine(count) {
									res.Violate("c10:barrier:"+sig, fmt.Sprintf("ns=%v txn=%v %s", nsMode, txn, msg), c10Art{"history", nsMode, txn, hh, "", 0})
								}
								continue
							}
							key := w.canon()
							if !last {
								if seen[key] {
									continue
								}
								seen[key] = true
								next = append(next, hh)
							}
							if vout.Mine(count) {
								res.Add("states", 1)
								res.Distinct("nontrivial", fmt.Sprintf("%v|%v|%s", nsMode, txn, key))
								if count%997 == 0 {
									res.Sample(map[string]interface{}{"history": fmt.Sprint(hh), "state": key})
								}
							}
						}
					}
					frontier = next
				}
			}
		}
	}
	// ---- C: crash after every physical-write prefix of Rotate / RotateRootKey
	if only == "" || only == "C" {
		prefixes := [][]c10Op{
			{{"put", "a"}},
			{{"put", "a"}, {"rotate", ""}, {"put", "b"}},
			{{"put", "a"}, {"rotate-root", ""}, {"put", "b"}},
			{{"put", "a"}, {"rotate", ""}, {"rotate-root", ""}, {"rotate", ""}, {"put", "b"}},
		}
		for _, nsMode := range []bool{false, true} {
			for pi, pre := range prefixes {
				for _, opk := range []string{"rotate", "rotate-root"} {
					// pass 0: number of durable mutations of the operation
					w0, sig, msg := c10Replay(nsMode, true, pre)
					if sig != "" {
						t.Fatalf("harness: prefix failed: %s %s", sig, msg)
					}
					physx.Ctl(w0.phys).ResetMutations()
					if s, m := w0.step(c10Op{opk, ""}); s != "" {
						t.Fatalf("harness: %s %s", s, m)
					}
					nmut := physx.Ctl(w0.phys).Mutations()
					for j := 1; j <= nmut; j++ {
						count++
						if !vout.Mine(count) {
							continue
						}
						w, _, _ := c10Replay(nsMode, true, pre)
						ctl := physx.Ctl(w.phys)
						ctl.CrashAfter(j)
						oldRoot := append([]byte{}, w.root...)
						var newRoot []byte
						func() {
							defer func() { _ = recover() }()
							if opk == "rotate" {
								nt, err := w.active.Rotate(c10ctx)
								if err == nil {
									_ = w.active.CreateUpgrade(c10ctx, nt)
								}
							} else {
								nk, _ := w.active.GenerateKey()
								newRoot = append([]byte{}, nk...)
								_ = w.active.RotateRootKey(c10ctx, nk)
							}
						}()
						crashed, snap := ctl.Crashed()
						if !crashed {
							continue
						}
						res.Add("executions", 1)
						res.Add("crash_runs", 1)
						inm, _ := inmem.NewInmem(nil, log.NewNullLogger())
						if err := physx.Restore(inm, snap); err != nil {
							t.Fatal(err)
						}
						nb := c10Raw(NewAESGCMBarrier(inm, w.ns))
						art := c10Art{"crash", nsMode, true, pre, opk, j}
						err1 := nb.Unseal(c10ctx, append([]byte{}, oldRoot...))
						var err2 error
						if err1 != nil && newRoot != nil {
							err2 = nb.Unseal(c10ctx, append([]byte{}, newRoot...))
						}
						if nb.Sealed() {
							res.Violate("c10:barrier:crash:unsealable", fmt.Sprintf("ns=%v prefix %v: crash after physical write %d of %d of %s: neither the old nor the new root key unseals (%v / %v)", nsMode, pre, j, nmut, opk, err1, err2), art)
							continue
						}
						for k, v := range w.model {
							e, err := nb.Get(c10ctx, k)
							if err != nil || e == nil || string(e.Value) != v {
								res.Violate("c10:barrier:crash:entry-lost", fmt.Sprintf("ns=%v prefix %v: crash after physical write %d of %d of %s: entry %s unreadable after restart (%v, %v)", nsMode, pre, j, nmut, opk, k, e, err), art)
								break
							}
						}
						// new writes use the newest term that is in the (persisted) keyring
						if err := nb.Put(c10ctx, &logical.StorageEntry{Key: "data/z", Value: []byte("z")}); err != nil {
							res.Violate("c10:barrier:crash:write-failed", fmt.Sprintf("ns=%v prefix %v crash %d of %s: write after restart failed: %v", nsMode, pre, j, opk, err), art)
						}
						res.Distinct("nontrivial", fmt.Sprintf("C|%v|%d|%s|%d", nsMode, pi, opk, j))
					}
				}
			}
		}
	}
}
