package barrier

// C01 (T1): tamper space of the real AESGCMBarrier.  For every stored record
// (keys x values x record format v1/v2 x key term 1..3 x plain / transactional
// read path): every single-bit flip, every truncation, one-byte extensions,
// every rewrite of the term header and of the version byte, transplants to
// every other key and to the same key written under another term.  Oracle: the
// read fails, or returns exactly the value last written under THAT key; the
// only tolerated non-error read of a moved record is a v1 (legacy) transplant.

import (
	"strings"
	"bytes"
	"encoding/binary"
	"fmt"
	"testing"

	log "github.com/hashicorp/go-hclog"
	"github.com/openbao/openbao/sdk/v2/helper/verif/vout"
	"github.com/openbao/openbao/sdk/v2/logical"
	"github.com/openbao/openbao/sdk/v2/physical"
	"github.com/openbao/openbao/sdk/v2/physical/inmem"
)

func c01Values() map[string][]byte {
	bin := make([]byte, 48)
	for i := range bin {
		bin[i] = byte(i*37 + 11)
	}
	big := bytes.Repeat([]byte("0123456789abcdef"), 64)
	return map[string][]byte{"empty": {}, "1B": {0x41}, "16B": []byte("sixteen-bytes-xx"), "33B": bytes.Repeat([]byte{0x5a}, 33), "1KiB": big, "binary": bin}
}

// c01LegacyStore: a store whose keyring and entries were written in the legacy record
// format (an installation that predates the bound format) is opened by a fresh barrier
// object, with and without a rotation / a keyring reload in between: every record the
// fresh barrier WRITES must be in the current, key-bound format (the statement allows
// legacy records to be relocatable, not new ones).
func c01LegacyStore(t *testing.T, res *vout.Result) {
	for _, step := range []string{"unseal", "unseal+rotate", "unseal+reload", "unseal+seal+unseal"} {
		inm, err := inmem.NewInmem(nil, log.NewNullLogger())
		if err != nil {
			t.Fatal(err)
		}
		old := c10Raw(NewAESGCMBarrier(inm, nil))
		old.currentAESGCMVersionByte = AESGCMVersion1
		rk, _ := old.GenerateKey()
		if err := old.Initialize(c10ctx, rk, nil); err != nil {
			t.Fatal(err)
		}
		if err := old.Unseal(c10ctx, rk); err != nil {
			t.Fatal(err)
		}
		old.currentAESGCMVersionByte = AESGCMVersion1
		if _, err := old.Rotate(c10ctx); err != nil { // rewrites the keyring in the legacy format
			t.Fatal(err)
		}
		if err := old.Put(c10ctx, &logical.StorageEntry{Key: "legacy", Value: []byte("L")}); err != nil {
			t.Fatal(err)
		}
		_ = old.Seal()
		fresh := c10Raw(NewAESGCMBarrier(inm, nil))
		if err := fresh.Unseal(c10ctx, rk); err != nil {
			t.Fatalf("harness: unseal of the legacy store: %v", err)
		}
		switch step {
		case "unseal+rotate":
			if _, err := fresh.Rotate(c10ctx); err != nil {
				t.Fatal(err)
			}
		case "unseal+reload":
			if err := fresh.ReloadKeyring(c10ctx); err != nil {
				t.Fatal(err)
			}
		case "unseal+seal+unseal":
			_ = fresh.Seal()
			if err := fresh.Unseal(c10ctx, rk); err != nil {
				t.Fatal(err)
			}
		}
		for _, k := range []string{"new/a", "new/b"} {
			if err := fresh.Put(c10ctx, &logical.StorageEntry{Key: k, Value: []byte("N-" + k)}); err != nil {
				t.Fatal(err)
			}
			pe, _ := inm.Get(c10ctx, k)
			res.Add("evaluations", 1)
			if pe == nil || len(pe.Value) < 5 || pe.Value[4] != AESGCMVersion2 {
				v := -1
				if pe != nil && len(pe.Value) >= 5 {
					v = int(pe.Value[4])
				}
				res.Violate("c01:tamper:legacy-store:new-write-in-legacy-format", fmt.Sprintf("store with a legacy-format keyring, %s: a new write of %q is stored with record format %d, not the current key-bound format", step, k, v), nil)
			}
		}
		// and such a record must not be relocatable
		pa, _ := inm.Get(c10ctx, "new/a")
		if pa != nil {
			_ = inm.Put(c10ctx, &physical.Entry{Key: "new/b", Value: pa.Value})
			if e, err := fresh.Get(c10ctx, "new/b"); err == nil && e != nil && string(e.Value) == "N-new/a" {
				res.Violate("c01:tamper:legacy-store:new-record-relocatable", fmt.Sprintf("store with a legacy-format keyring, %s: a record written now under new/a reads back under new/b", step), nil)
			}
		}
		res.Distinct("nontrivial", "legacy-store|"+step)
	}
}

func TestVerifC01Tamper(t *testing.T) {
	res := vout.New("C01", "tamper")
	defer func() {
		if err := res.Write(); err != nil {
			t.Fatal(err)
		}
	}()
	if i, _ := vout.Shard(); i == 0 {
		c01LegacyStore(t, res)
	}
	if i, n := vout.Shard(); i == 1%n {
		c01KeyringRecord(t, res)
	}
	// the long keys differ only in their last byte, after 305 / 1205 common bytes:
	// binding that covers only a prefix of the storage key lets them be swapped
	keys := []string{"k", "a/b", "a/c", "core/x",
		"long/" + strings.Repeat("x", 300) + "a", "long/" + strings.Repeat("x", 300) + "b",
		"long/" + strings.Repeat("y", 1200) + "a", "long/" + strings.Repeat("y", 1200) + "b"}
	vals := c01Values()
	count := 0
	for _, version := range []byte{AESGCMVersion1, AESGCMVersion2} {
		for term := uint32(1); term <= 3; term++ {
			for _, txPath := range []bool{false, true} {
				count++
				if !vout.Mine(count) {
					continue
				}
				inm, err := inmem.NewInmem(nil, log.NewNullLogger())
				if err != nil {
					t.Fatal(err)
				}
				sb := NewAESGCMBarrier(inm, nil)
				b := c10Raw(sb)
				rk, _ := b.GenerateKey()
				if err := b.Initialize(c10ctx, rk, nil); err != nil {
					t.Fatal(err)
				}
				if err := b.Unseal(c10ctx, rk); err != nil {
					t.Fatal(err)
				}
				b.currentAESGCMVersionByte = version
				// records written under an earlier term (for same-key/other-term transplants)
				older := map[string][]byte{}
				for tm := uint32(1); tm < term; tm++ {
					if tm == term-1 {
						for _, k := range keys {
							if err := b.Put(c10ctx, &logical.StorageEntry{Key: k, Value: []byte("older-" + k)}); err != nil {
								t.Fatal(err)
							}
							pe, _ := inm.Get(c10ctx, k)
							older[k] = append([]byte{}, pe.Value...)
						}
					}
					if _, err := b.Rotate(c10ctx); err != nil {
						t.Fatal(err)
					}
				}
				get := func(k string) ([]byte, error) {
					if txPath {
						tx, err := sb.(logical.TransactionalStorage).BeginReadOnlyTx(c10ctx)
						if err != nil {
							return nil, err
						}
						defer tx.Rollback(c10ctx) //nolint:errcheck
						e, err := tx.Get(c10ctx, k)
						if err != nil || e == nil {
							return nil, err
						}
						return e.Value, nil
					}
					e, err := b.Get(c10ctx, k)
					if err != nil || e == nil {
						return nil, err
					}
					return e.Value, nil
				}
				for vname, val := range vals {
					cfg := fmt.Sprintf("version=%d term=%d tx=%v value=%s", version, term, txPath, vname)
					stored := map[string][]byte{}
					for _, k := range keys {
						v := append(append([]byte{}, val...), []byte(k)...) // distinct value per key
						if err := b.Put(c10ctx, &logical.StorageEntry{Key: k, Value: v}); err != nil {
							t.Fatal(err)
						}
						pe, _ := inm.Get(c10ctx, k)
						stored[k] = append([]byte{}, pe.Value...)
						if binary.BigEndian.Uint32(pe.Value[:4]) != term || pe.Value[4] != version {
							res.Violate("c01:tamper:header", fmt.Sprintf("%s key=%s: record header term=%d version=%d", cfg, k, binary.BigEndian.Uint32(pe.Value[:4]), pe.Value[4]), nil)
						}
						if len(val) >= 16 && bytes.Contains(pe.Value, val) {
							res.Violate("c01:tamper:plaintext-in-record", fmt.Sprintf("%s key=%s: the plaintext appears in the stored record", cfg, k), nil)
						}
					}
					check := func(kind string, k string, mutated []byte, transplantV1 bool) {
						_ = inm.Put(c10ctx, &physical.Entry{Key: k, Value: mutated})
						var got []byte
						var err error
						func() {
							defer func() {
								if r := recover(); r != nil {
									err = fmt.Errorf("PANIC: %v", r)
									res.Violate("c01:tamper:panic", fmt.Sprintf("%s key=%s %s: read panicked: %v", cfg, k, kind, r), map[string]interface{}{"cfg": cfg, "key": k, "mutation": kind})
								}
							}()
							got, err = get(k)
						}()
						res.Add("evaluations", 1)
						want := append(append([]byte{}, val...), []byte(k)...)
						if err == nil && !bytes.Equal(got, want) {
							if transplantV1 {
								res.Add("v1_relocations_accepted", 1)
							} else {
								res.Violate("c01:tamper:"+kind+":wrong-value-returned", fmt.Sprintf("%s key=%s %s: read returned a value (%d bytes) that was never written under this key", cfg, k, kind, len(got)), map[string]interface{}{"cfg": cfg, "key": k, "mutation": kind})
							}
						}
						if err == nil && bytes.Equal(got, want) && !bytes.Equal(mutated, stored[k]) {
							// "reading an entry whose stored bytes were altered, truncated, re-encoded with
							// another format/term header ... fails with an error": every byte of a record is
							// authenticated or checked (term, format byte, nonce, ciphertext, tag), so an
							// altered record that still reads back - even with the right value - means some
							// part of it is not verified
							res.Add("mutations_still_authentic", 1)
							res.Violate("c01:tamper:"+kind+":altered-record-read-without-error", fmt.Sprintf("%s key=%s %s: the stored bytes were altered (%x... -> %x...), yet the read returned the value without an error", cfg, k, kind, stored[k][:5], mutated[:min(5, len(mutated))]), map[string]interface{}{"cfg": cfg, "key": k, "mutation": kind})
						}
						res.Distinct("nontrivial", fmt.Sprintf("%d|%d|%v|%s|%s|err=%v", version, term, txPath, vname, kind, err != nil))
					}
					for _, k := range keys {
						rec := stored[k]
						for bit := 0; bit < len(rec)*8; bit++ {
							m := append([]byte{}, rec...)
							m[bit/8] ^= 1 << (bit % 8)
							check("bitflip", k, m, false)
						}
						for l := 0; l < len(rec); l++ {
							check("truncate", k, append([]byte{}, rec[:l]...), false)
						}
						for _, ext := range []byte{0x00, 0xff} {
							check("extend", k, append(append([]byte{}, rec...), ext), false)
						}
						for _, nt := range []uint32{0, 1, 2, 3, 4, 0xffffffff} {
							if nt == term {
								continue
							}
							m := append([]byte{}, rec...)
							binary.BigEndian.PutUint32(m[:4], nt)
							check("term-rewrite", k, m, false)
						}
						for _, nv := range []byte{0, 1, 2, 3, 255} {
							if nv == version {
								continue
							}
							m := append([]byte{}, rec...)
							m[4] = nv
							check("version-rewrite", k, m, false)
						}
						for _, k2 := range keys {
							if k2 != k {
								check("transplant", k, append([]byte{}, stored[k2]...), version == AESGCMVersion1)
							}
						}
						if o, ok := older[k]; ok {
							// same key, record written under the previous term with another value:
							// it is an authentic earlier write to THIS key, so replaying it is outside
							// the statement (no freshness claim); only count it
							_ = o
							res.Add("replays_of_older_record_not_judged", 1)
						}
						_ = inm.Put(c10ctx, &physical.Entry{Key: k, Value: rec})
					}
				}
			}
		}
	}
}

// c01KeyringRecord: the keyring record itself (core/keyring, written by the barrier and
// read by Unseal and ReloadKeyring on paths of their own) under every single-bit flip,
// every format-byte and term rewrite, truncations and extensions: a fresh barrier must
// refuse to unseal from the altered record and a live one must refuse to reload it.
// After one rotation (term 2) and in both record formats.
func c01KeyringRecord(t *testing.T, res *vout.Result) {
	for _, version := range []byte{AESGCMVersion1, AESGCMVersion2} {
		for _, rotate := range []bool{false, true} {
			inm, err := inmem.NewInmem(nil, log.NewNullLogger())
			if err != nil {
				t.Fatal(err)
			}
			b := c10Raw(NewAESGCMBarrier(inm, nil))
			b.currentAESGCMVersionByte = version
			rk, _ := b.GenerateKey()
			if err := b.Initialize(c10ctx, rk, nil); err != nil {
				t.Fatal(err)
			}
			if err := b.Unseal(c10ctx, rk); err != nil {
				t.Fatal(err)
			}
			b.currentAESGCMVersionByte = version
			if rotate {
				if _, err := b.Rotate(c10ctx); err != nil {
					t.Fatal(err)
				}
			}
			pe, _ := inm.Get(c10ctx, KeyringPath)
			if pe == nil {
				t.Fatalf("harness: no keyring record")
			}
			rec := append([]byte{}, pe.Value...)
			cfg := fmt.Sprintf("keyring record format=%d rotated=%v", rec[4], rotate)
			try := func(kind string, mutated []byte) {
				_ = inm.Put(c10ctx, &physical.Entry{Key: KeyringPath, Value: mutated})
				res.Add("evaluations", 1)
				res.Add("keyring_record_mutations", 1)
				var uerr, rerr error
				func() {
					defer func() {
						if r := recover(); r != nil {
							uerr = fmt.Errorf("PANIC: %v", r)
							res.Violate("c01:tamper:keyring:panic", fmt.Sprintf("%s %s: Unseal panicked: %v", cfg, kind, r), nil)
						}
					}()
					fresh := c10Raw(NewAESGCMBarrier(inm, nil))
					uerr = fresh.Unseal(c10ctx, rk)
					if uerr == nil {
						_ = fresh.Seal()
					}
				}()
				func() {
					defer func() {
						if r := recover(); r != nil {
							rerr = fmt.Errorf("PANIC: %v", r)
							res.Violate("c01:tamper:keyring:panic", fmt.Sprintf("%s %s: ReloadKeyring panicked: %v", cfg, kind, r), nil)
						}
					}()
					rerr = b.ReloadKeyring(c10ctx)
				}()
				if uerr == nil {
					res.Violate("c01:tamper:keyring:"+kind+":unsealed-from-altered-record", fmt.Sprintf("%s %s: a fresh barrier unsealed from the altered keyring record without an error", cfg, kind), map[string]interface{}{"cfg": cfg, "mutation": kind})
				}
				if rerr == nil {
					res.Violate("c01:tamper:keyring:"+kind+":reloaded-altered-record", fmt.Sprintf("%s %s: the live barrier reloaded the altered keyring record without an error", cfg, kind), map[string]interface{}{"cfg": cfg, "mutation": kind})
				}
				res.Distinct("nontrivial", fmt.Sprintf("keyring|%d|%v|%s|%v|%v", version, rotate, kind, uerr != nil, rerr != nil))
			}
			for bit := 0; bit < len(rec)*8; bit++ {
				m := append([]byte{}, rec...)
				m[bit/8] ^= 1 << (bit % 8)
				try("bitflip", m)
			}
			for _, nv := range []byte{0, 1, 2, 3, 255} {
				if nv != rec[4] {
					m := append([]byte{}, rec...)
					m[4] = nv
					try("version-rewrite", m)
				}
			}
			for _, nt := range []uint32{0, 2, 3, 0xffffffff} {
				if nt != binary.BigEndian.Uint32(rec[:4]) {
					m := append([]byte{}, rec...)
					binary.BigEndian.PutUint32(m[:4], nt)
					try("term-rewrite", m)
				}
			}
			for _, l := range []int{0, 1, 4, 5, 17, 33, len(rec) - 1} {
				if l < len(rec) {
					try("truncate", append([]byte{}, rec[:l]...))
				}
			}
			try("extend", append(append([]byte{}, rec...), 0x00))
			// restore and make sure the genuine record still works (vacuity guard)
			_ = inm.Put(c10ctx, &physical.Entry{Key: KeyringPath, Value: rec})
			fresh := c10Raw(NewAESGCMBarrier(inm, nil))
			if err := fresh.Unseal(c10ctx, rk); err != nil {
				t.Fatalf("harness: the genuine keyring record does not unseal: %v", err)
			}
			if err := b.ReloadKeyring(c10ctx); err != nil {
				t.Fatalf("harness: the genuine keyring record does not reload: %v", err)
			}
		}
	}
}
