//go:build verif

package vault

// Read-only accessors and one test seam for the /verif harnesses.  This file
// exists only in the build overlay (never in /repo) and only with -tags verif.

import (
	"context"
	"sort"
	"time"

	"github.com/openbao/openbao/sdk/v2/logical"
	"github.com/openbao/openbao/v2/internal/helper/namespace"
	"github.com/openbao/openbao/v2/internal/vault/barrier"
)

func (c *Core) VerifExpiration() *ExpirationManager { return c.expiration }

// VerifSetStepDownSleep shortens the pause a node makes after sys/step-down before it
// contends for the HA lock again (a timing constant; the repository's own cluster tests
// change it the same way).  Returns the previous value.
func VerifSetStepDownSleep(d time.Duration) time.Duration {
	old := manualStepDownSleepPeriod
	manualStepDownSleepPeriod = d
	return old
}

// VerifBarriers returns the root barrier and every namespace barrier known to
// the seal manager, keyed by namespace path ("" = root).
func (c *Core) VerifBarriers() map[string]barrier.SecurityBarrier {
	out := map[string]barrier.SecurityBarrier{"": c.barrier}
	if c.sealManager != nil {
		c.sealManager.barrierByNamespacePath.Walk(func(p string, v any) bool {
			if b, ok := v.(barrier.SecurityBarrier); ok && p != "" {
				out[p] = b
			}
			return false
		})
	}
	return out
}
func (c *Core) VerifTokenStore() *TokenStore        { return c.tokenStore }

// VerifCreateToken stores a token entry the way internal callers do (the OIDC provider mints
// its access tokens with an INLINE policy this way; no API creates such a token directly).
func (c *Core) VerifCreateToken(ctx context.Context, te *logical.TokenEntry) error {
	if err := c.tokenStore.create(ctx, te, true); err != nil {
		return err
	}
	// ... and its lease, as every minting path does (a token with a TTL and no lease is refused)
	auth := &logical.Auth{ClientToken: te.ID, Accessor: te.Accessor, Policies: te.Policies, TokenType: logical.TokenTypeService,
		LeaseOptions: logical.LeaseOptions{TTL: te.TTL, Renewable: false}}
	return c.expiration.RegisterAuth(ctx, te, auth, "", true)
}

// VerifDisablePhysicalCache switches the read cache in front of the physical
// backend off (what disable_cache does in a server configuration; the test
// constructor the harness uses does not pass that setting through).
func (c *Core) VerifDisablePhysicalCache() {
	c.cachingDisabled = true // post-unseal switches the cache back on otherwise
	if c.physicalCache != nil {
		c.physicalCache.SetEnabled(false)
		c.physicalCache.Purge(context.Background())
	}
}

// VerifNamespaceRootToken mints the kind of token root generation for a
// namespace hands out: a token of namespace ns holding the root policy.
func (c *Core) VerifNamespaceRootToken(ns *namespace.Namespace) (string, error) {
	te, err := c.tokenStore.rootToken(namespace.ContextWithNamespace(namespace.RootContext(context.Background()), ns))
	if err != nil {
		return "", err
	}
	return te.ExternalID, nil
}

// VerifSetExpireRecorder replaces the lease-expiry strategy: a lease whose
// timer fires is handed to rec instead of the revocation workers, so the
// harness can run the revocation as an explicit step.
func (m *ExpirationManager) VerifSetExpireRecorder(rec func(leaseID string, ns *namespace.Namespace)) {
	s := ExpireLeaseStrategy(func(_ context.Context, _ *ExpirationManager, leaseID string, ns *namespace.Namespace) {
		rec(leaseID, ns)
	})
	m.expireFunc.Store(&s)
}

// VerifTracked lists the lease ids held in the three in-memory maps.
func (m *ExpirationManager) VerifTracked() (pending, nonexpiring, irrevocable []string) {
	m.pending.Range(func(k, _ any) bool { pending = append(pending, k.(string)); return true })
	m.nonexpiring.Range(func(k, _ any) bool { nonexpiring = append(nonexpiring, k.(string)); return true })
	m.irrevocable.Range(func(k, _ any) bool { irrevocable = append(irrevocable, k.(string)); return true })
	sort.Strings(pending)
	sort.Strings(nonexpiring)
	sort.Strings(irrevocable)
	return
}

// VerifStopTimers stops the expiry timer of every tracked lease. The harness
// calls it right before it shuts a Core down: ExpirationManager.Stop clears the
// pending map before the goroutine that is meant to stop the timers ranges over
// it, so the timers of unexpired leases stay armed and keep the whole Core
// reachable until they fire (hours, for the harness's leases) - thousands of
// shut-down Cores per worker process would otherwise stay in memory.
func (m *ExpirationManager) VerifStopTimers() {
	m.pendingLock.Lock()
	defer m.pendingLock.Unlock()
	stop := func(_, v any) bool {
		if pi, ok := v.(pendingInfo); ok && pi.timer != nil {
			pi.timer.Stop()
		}
		return true
	}
	m.pending.Range(stop)
	m.nonexpiring.Range(stop)
}

// VerifCachedExpiry returns the expiry the manager has cached for a tracked lease (what
// its timer was armed with).
func (m *ExpirationManager) VerifCachedExpiry(leaseID string) (time.Time, bool) {
	if raw, ok := m.pending.Load(leaseID); ok {
		if pi, ok := raw.(pendingInfo); ok && pi.cachedLeaseInfo != nil {
			return pi.cachedLeaseInfo.ExpireTime, true
		}
	}
	return time.Time{}, false
}

// VerifRestoreDone reports whether the lease restore has finished.
func (m *ExpirationManager) VerifRestoreDone() bool { return !m.inRestoreMode() }

// VerifPendingDeletion lists salted ids currently marked pending deletion.
func (ts *TokenStore) VerifPendingDeletion() (out []string) {
	ts.tokensPendingDeletion.Range(func(k, v any) bool {
		if b, ok := v.(bool); !ok || b {
			out = append(out, k.(string))
		}
		return true
	})
	sort.Strings(out)
	return
}

type VerifDueLease struct {
	LeaseID string
	NS      *namespace.Namespace
}

// VerifDue lists the tracked leases whose expiry is not after now (the ones a
// live server would hand to the revocation workers).
func (m *ExpirationManager) VerifDue(now time.Time) (out []VerifDueLease) {
	m.pending.Range(func(k, v any) bool {
		pi, ok := v.(pendingInfo)
		if !ok || pi.cachedLeaseInfo == nil {
			return true
		}
		if !pi.cachedLeaseInfo.ExpireTime.IsZero() && !pi.cachedLeaseInfo.ExpireTime.After(now) {
			ns := pi.cachedLeaseInfo.namespace
			if ns == nil {
				ns = namespace.RootNamespace
			}
			out = append(out, VerifDueLease{k.(string), ns})
		}
		return true
	})
	sort.Slice(out, func(i, j int) bool { return out[i].LeaseID < out[j].LeaseID })
	return
}
