"""Build-overlay generator (engine E0).

Nothing is ever written into /repo.  The overlay JSON handed to `go test -c
-overlay` does three things:

1. mirrors /verif/engine/<pkg>  to  <repo>/sdk/helper/verif/<pkg>   (shared engines,
   placed in the sdk module so that both Go modules can import them);
2. mirrors /verif/inject/<path>  to  <repo>/<path>  (virtual harness packages such
   as internal/verifh/core, in-package `zz_verif_*_test.go` harnesses, and tiny
   `//go:build verif` accessor files next to unexported state);
3. for units that ask for it, rewrites the import of "sync" (-> vsync shim),
   "time" (-> vclock shim) or "crypto/rand" (-> vrand) in copies of the repository's
   own non-test files.  The rest of each file is copied byte for byte from the
   current working tree, so an edit to that file is still what gets compiled.
"""
import os, json, re, subprocess

SDK_MOD = "github.com/openbao/openbao/sdk/v2"
SHIMS = {
    "sync": SDK_MOD + "/helper/verif/vsync",
    "time": SDK_MOD + "/helper/verif/vclock",
    "crypto/rand": SDK_MOD + "/helper/verif/vrand",
}
DEFAULT_NAME = {"sync": "sync", "time": "time", "crypto/rand": "rand"}


def _walk_go(root):
    for d, dirs, files in os.walk(root):
        dirs[:] = [x for x in dirs if x not in (".git", "node_modules", "testdata", "ui", "website")]
        for f in files:
            if f.endswith(".go"):
                yield os.path.join(d, f)


def rewrite_imports(src, pkgs):
    """Return rewritten source or None if no listed import occurs.

    Works on gofmt'ed import declarations: `import "x"`, `import n "x"` and
    lines inside `import ( ... )` blocks.  Only the import path changes (a name
    is added so the identifier used in the file stays the same)."""
    changed = False
    out = []
    in_block = False
    done = False  # imports end at the first non-import top-level declaration
    for line in src.split("\n"):
        if done:
            out.append(line)
            continue
        s = line.strip()
        if in_block:
            if s == ")":
                in_block = False
                out.append(line)
                continue
            m = re.match(r'^(\s*)(?:([A-Za-z_.][A-Za-z0-9_]*)\s+)?"([^"]+)"(.*)$', line)
            if m and m.group(3) in pkgs:
                name = m.group(2) or DEFAULT_NAME[m.group(3)]
                out.append('%s%s "%s"%s' % (m.group(1), name, SHIMS[m.group(3)], m.group(4)))
                changed = True
                continue
            out.append(line)
            continue
        if s.startswith("import ("):
            in_block = True
            out.append(line)
            continue
        m = re.match(r'^import\s+(?:([A-Za-z_.][A-Za-z0-9_]*)\s+)?"([^"]+)"(.*)$', line)
        if m:
            if m.group(2) in pkgs:
                name = m.group(1) or DEFAULT_NAME[m.group(2)]
                out.append('import %s "%s"%s' % (name, SHIMS[m.group(2)], m.group(3)))
                changed = True
            else:
                out.append(line)
            continue
        if re.match(r'^(func|type|var|const)\b', s):
            done = True
        out.append(line)
    return "\n".join(out) if changed else None


def _stmt_tool(verif):
    """Builds tools/stmtpoints on demand (stdlib only, offline)."""
    src = os.path.join(verif, "tools", "stmtpoints")
    out = os.path.join(verif, "bin", ".tools", "stmtpoints")
    newest = max(os.path.getmtime(os.path.join(src, f)) for f in os.listdir(src))
    if not os.path.exists(out) or os.path.getmtime(out) < newest:
        os.makedirs(os.path.dirname(out), exist_ok=True)
        env = dict(os.environ, GOFLAGS="-mod=mod", GOPROXY="off", GOSUMDB="off", GOTOOLCHAIN="local")
        tmp = out + ".%d" % os.getpid()
        subprocess.run(["go1.27.0", "build", "-o", tmp, "."], cwd=src, env=env, check=True)
        os.replace(tmp, out)
    return out


def make(verif, repo, scratch, unit):
    replace = {}
    eng = os.path.join(verif, "engine")
    for f in _walk_go(eng):
        rel = os.path.relpath(f, eng)
        replace[os.path.join(repo, "sdk/helper/verif", rel)] = f
    inj = os.path.join(verif, "inject")
    skip = set(unit.get("skip_inject", []))
    for f in _walk_go(inj):
        rel = os.path.relpath(f, inj)
        if any(rel.startswith(s) for s in skip):
            continue
        replace[os.path.join(repo, rel)] = f
    rw = unit.get("rewrite") or {}
    # rw: {"sync": ["internal", "sdk"], "crypto/rand": ["sdk/helper/shamir"]}
    if rw:
        rwdir = os.path.join(scratch, "rw." + unit["name"])
        # invert: file -> set of imports to rewrite
        per_file = {}
        for imp, roots in rw.items():
            for r in roots:
                base = os.path.join(repo, r)
                for f in _walk_go(base):
                    if f.endswith("_test.go"):
                        continue
                    if "/helper/verif/" in f or "/verifh/" in f:
                        continue
                    per_file.setdefault(f, set()).add(imp)
        n = 0
        for f, imps in per_file.items():
            try:
                src = open(f, encoding="utf-8").read()
            except OSError:
                continue
            new = rewrite_imports(src, imps)
            if new is None:
                continue
            dst = os.path.join(rwdir, os.path.relpath(f, repo))
            os.makedirs(os.path.dirname(dst), exist_ok=True)
            with open(dst, "w", encoding="utf-8") as o:
                o.write(new)
            replace[f] = dst
            n += 1
        unit["_rewritten_files"] = n
    # statement-level hook points in selected functions (tools/stmtpoints): the
    # instrumented copy is produced from the CURRENT working-tree file
    sp = dict(unit.get("stmtpoints") or {})
    # Core-level harnesses own the "a lease's timer fired" event: the production strategy
    # (hand the lease to the revocation workers) is cut off at its first statement by a hook
    # installed in internal/verifh/core/base_test.go; expiry is handled by Sys.Drain instead.
    if unit.get("pkg", "").rstrip("/") == "./internal/verifh/core":
        sp.setdefault("internal/vault/expiration.go", "expireLeaseStrategyFairsharing")
    if sp:
        tool = _stmt_tool(verif)
        spdir = os.path.join(scratch, "sp." + unit["name"])
        for rel, funcs in sp.items():
            src = replace.get(os.path.join(repo, rel), os.path.join(repo, rel))
            dst = os.path.join(spdir, rel)
            os.makedirs(os.path.dirname(dst), exist_ok=True)
            r = subprocess.run([tool, src, dst, SDK_MOD + "/helper/verif/vstmt", funcs], capture_output=True, text=True)
            if r.returncode != 0:
                raise RuntimeError("stmtpoints failed for %s: %s" % (rel, r.stderr))
            replace[os.path.join(repo, rel)] = dst
    ovpath = os.path.join(scratch, "overlay.%s.json" % unit["name"])
    with open(ovpath, "w") as o:
        json.dump({"Replace": replace}, o)
    return ovpath
