"""C10: check registration (units) and manifest text."""
from common import SYNC_RW, RAFT_ENV  # noqa: F401

CHECK = {'level': 'model_checking',
 'rule': 'B: BFS (depth 4/5) over 25 barrier operations (since round 4 also a key rotation in its two halves - Rotate, then CreateUpgrade of the oldest / newest rotation still lacking it - and two overlapped rotations as one composite step, because the seal manager rotates under a read lock only; 15 in the original alphabet) on an active and a standby barrier sharing one store (root and '
         'namespace barrier; transactional and plain store), deduplicated by (sealed, term, #root rotations, key set, '
         'standby term/root); in every state: while sealed every operation fails with the sealed error and no key '
         'material is held, wrong/partial/previous keys leave it sealed, every entry reads back, new writes carry the '
         'newest term, the standby equals the active after the upgrade path. C: crash after every physical write of '
         'Rotate/RotateRootKey (barrier) and of rekey / root rotation (share-less and share-based to another '
         'threshold) / key rotation (Core), restart, unseal with old '
         'or new key material, read everything back. HA: every history (depth 4/5; histories containing a sys/step-down, after which the node stays unsealed and follows by the upgrade path only: depth 3/4) over write / rotate / rotate-root / '
         'rekey (rotation API and deprecated API) / fail-over / restart on two real Cores sharing one store and one HA '
         'lock; after every step the active node reads everything back and writes under the newest term, the node that '
         'took over holds the keyring the active node had, a sealed node serves nothing, and a copy of the store '
         'unseals on a new node with the currently valid shares. HA part A: the same pair with a stored-key (auto-unseal style) seal, histories (depth 3/4) over write / rotate / rotate-root / fail-over / restart / step-down. HA part N: every history (depth 3/4) that addresses a namespace with its own (3,3) Shamir seal (write, encryption-key rotation, share-less root rotation, share-based root rotation to (5,2) of THAT namespace) mixed with root-level writes / root rotation and every kind of leadership change: the node that takes over or restarts must complete the upgrade path, unseal the namespace with the shares its operator holds and read everything back. NS (Core level, per-namespace barrier): crash after every durable write and every single storage fault inside <ns>/sys/rotate, <ns>/sys/rotate/root and <ns>/sys/rotate/root/init+update, restart, root unseal, namespace unseal with old or new shares, read-back of the entries of the namespace and of the root namespace; histories (depth 2/3) over these operations, seal / unseal of the namespace, write and restart with a restarted copy probed after every step. S: every interleaving (storage-operation and contended-lock points, bound 2/3; lock-level points with one preemption) of the periodic auto-rotate check, key rotation, root-key rotation and a write, followed by a write, a restart and a read-back of everything',
 'assumptions': ['Seal()/RotateRootKey on an already sealed barrier are not driven (Core never calls them sealed)',
                 'Core crash runs obtain the would-be new shares from a fault-free pass (deterministic crypto/rand '
                 'seam)'],
 'units': [{'name': 'barrier',
            'pkg': './internal/vault/barrier',
            'run': '^TestVerifC10Barrier$',
            'shards': {'quick': 16, 'thorough': 16},
            'timeout': {'quick': 900, 'thorough': 3000}},
           {'name': 'core',
            'pkg': './internal/verifh/core',
            'run': '^TestVerifC10Core$',
            'rewrite': {'sync': ['internal', 'sdk']},
            'shards': {'quick': 8, 'thorough': 8},
            'timeout': {'quick': 900, 'thorough': 3000}},
           {'name': 'coreauto',
            'pkg': './internal/verifh/core',
            'run': '^TestVerifC10CoreAuto$',
            'rewrite': {'sync': ['internal', 'sdk']},
            'shards': {'quick': 8, 'thorough': 8},
            'timeout': {'quick': 900, 'thorough': 3000}},
           {'name': 'corens',
            'pkg': './internal/verifh/core',
            'run': '^TestVerifC10CoreNS$',
            'rewrite': {'sync': ['internal', 'sdk']},
            'shards': {'quick': 16, 'thorough': 16},
            'timeout': {'quick': 900, 'thorough': 3000}},
           {'name': 'corehist',
            'pkg': './internal/verifh/core',
            'run': '^TestVerifC10CoreHist$',
            'rewrite': {'sync': ['internal', 'sdk']},
            'shards': {'quick': 16, 'thorough': 16},
            'timeout': {'quick': 900, 'thorough': 3000}},
           {'name': 'sched',
            'pkg': './internal/verifh/core',
            'run': '^TestVerifC10Sched$',
            'rewrite': {'sync': ['internal', 'sdk']},
            'gomaxprocs': 2,
            'shards': {'quick': 16, 'thorough': 16},
            'timeout': {'quick': 900, 'thorough': 3000}},
           {'name': 'ha',
            'pkg': './internal/verifh/core',
            'run': '^TestVerifC10HA$',
            'rewrite': {'sync': ['internal', 'sdk']},
            'shards': {'quick': 16, 'thorough': 16},
            'timeout': {'quick': 900, 'thorough': 3000}}]}

META = {'engines': 'E0 E2 E3',
 'technique': 'explicit-state BFS over seal/rotate/unseal/standby histories on the real barrier; crash-point '
              'enumeration of rotation and rekey on barrier and Core',
 'text': "All histories up to depth 4/5 over the barrier's seal/rotation/standby operations are executed on real "
         'barrier instances and judged in every state; every crash point inside Rotate, RotateRootKey and a full Core '
         'rekey / root rotation / key rotation is followed by a restart and an unseal attempt with both key '
         'generations. Loss of data across rotation is a history x crash-point property over a handful of independent '
         'physical writes.',
 'note': "Trusted: physx crash model (whole-key atomic writes), in-package access to keyring/cache for the 'no key "
         "material' check."}
