"""C14: check registration (units) and manifest text."""
from common import SYNC_RW, RAFT_ENV  # noqa: F401

CHECK = {'level': 'model_checking',
 'rule': 'S: every multiset of 2 (and selected/all 3) concurrent requests from {put cas=1, put, patch, read, read v1, '
         'delete, delete v1, undelete v1, destroy v1, metadata max_versions=1, metadata cas_required} on one secret '
         'path, all interleavings at storage-op granularity up to the preemption bound, linearizability decided by '
         'brute force over all real-time-consistent sequential orders (reference = the engine run sequentially on a '
         'fresh Core). H: all sequential histories to depth 3/4 vs an independent versioned-register model. M: every history (depth 3/4 from the fresh secret, depth 2/3 from 4 pre-states: secret limit below mount limit at the limit; mount limit with one pruned and one deleted version; deleted + destroyed + live versions; removed secret under a cas_required mount) over 20 operations (put, put with current / stale cas, patch, patch with cas, delete latest, delete / undelete / destroy with version LISTS incl. versions that do not exist or are already deleted, secret and mount max_versions, secret and mount cas_required, removal of the secret) against a full independent model (pruning by the larger of the two limits, exact cas, per-version flags); after every step every version 1..8, the current version and the whole metadata are compared. F: every '
         'single storage failure in each write-type call, transactional and non-transactional storage; non-trivial = '
         'distinct (scenario, observations, final state)',
 'assumptions': ['sequential reference for S is the implementation itself; sequential semantics are judged separately '
                 'by the H model',
                 'the H model specifies versions, CAS, reads, delete/undelete/destroy; error classes of patch on a '
                 'missing version and metadata pruning are only covered through S'],
 'units': [{'name': 'core',
            'pkg': './internal/verifh/core',
            'run': '^TestVerifC14$',
            'rewrite': {'sync': ['internal', 'sdk']},
            'gomaxprocs': 2,
            'shards': {'quick': 16, 'thorough': 16},
            'timeout': {'quick': 900, 'thorough': 3400}},
           {'name': 'race',
            'pkg': './internal/verifh/core',
            'run': '^TestVerifC14$',
            'race': True,
            'tiers': ['thorough'],
            'env': {'VERIF_FREE': '1', 'VERIF_PART': 'S', 'GORACE': 'halt_on_error=0 exitcode=0 log_path={scratch}/race'},
            'shards': {'quick': 8, 'thorough': 8},
            'timeout': {'quick': 900, 'thorough': 2400}}
    ]}

META = {'engines': 'E0 E1 E2 E3',
 'technique': 'stateless DFS over thread interleavings of the real Core + brute-force linearizability; BFS over '
              'histories vs model; exhaustive single-fault injection',
 'text': 'Concurrent requests on one kv-v2 path are explored over every interleaving (preemption bound 2; thorough: '
         'unbounded for pairs) and each execution must be linearizable; sequential histories to depth 3/4 are checked '
         'against an independent versioned-register model; each write-type call is re-run with its k-th storage '
         'operation failing for every k. CAS exactness and version consecutiveness under concurrency are schedule '
         'properties; failure atomicity is a fault-position property; both spaces are finite for 2-3 short requests.',
 'note': 'Trusted: scheduler shim, the sequential engine as linearizability reference, the H model. Bounded: one path, '
         '<=3 requests, depth <=4.'}
