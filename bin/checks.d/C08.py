"""C08: check registration (units) and manifest text."""
from common import SYNC_RW, RAFT_ENV  # noqa: F401

CHECK = {'level': 'model_checking',
 'rule': 'every merge order of the steps of 2 (and 3) transaction/plain-write programs drawn from a 26-template '
         'alphabet built to collide (write skew, phantoms, blind writes, RMW, paginated lists, read-your-writes, '
         'read-only misuse, rollback), on every transactional stack; each step is compared with a serial reference in '
         'commit order; states = (program set, initial state) scenarios, transitions = steps executed on the '
         'implementation; non-trivial = distinct (stack, commits, conflicts, final state)',
 'assumptions': ['serial reference in commit order; value-based validation (A-B-A commits); spurious conflicts are '
                 "allowed by the statement ('commits only if') and only counted, except that a conflict with no "
                 'committed change since begin is a violation',
                 'PostgreSQL transactional backend not reachable offline'],
 'units': [{'name': 'storage',
            'pkg': './internal/verifh/storage',
            'run': '^TestVerifC08$',
            'shards': {'quick': 16, 'thorough': 16},
            'timeout': {'quick': 900, 'thorough': 3000}},
           {'name': 'cachesched',
            'pkg': './internal/verifh/storage',
            'run': '^TestVerifC08Sched$',
            'rewrite': SYNC_RW,
            'gomaxprocs': 2,
            'shards': {'quick': 16, 'thorough': 16},
            'timeout': {'quick': 600, 'thorough': 3000}},
           {'name': 'raft',
            'pkg': './internal/physical/raft',
            'run': '^TestVerifC08Raft$',
            'stmtpoints': {'internal/physical/raft/transaction.go': 'newTransaction,trackTransaction'},
            'env': {'BAO_RAFT_INITIAL_MMAP_SIZE': '4194304'},
            'ulimit_kb': 67108864,
            'shards': {'quick': 16, 'thorough': 16},
            'timeout': {'quick': 600, 'thorough': 3000}}]}

META = {'engines': 'E0 E3',
 'technique': 'exhaustive enumeration of all interleavings of small transaction programs on the real backends vs '
              'serial commit-order reference',
 'text': 'Exhaustive within the bound: all interleavings of every pair (and selected triples) of 26 colliding '
         'transaction programs on transactional inmem and all wrapping layers, plus the real raft backend with the '
         'FSM-apply event owned by the harness (every lag shape up to the bound). Serializability is a property of all '
         'schedules; for 2-3 short transactions the schedule space is finite and small enough to cover completely.',
 'note': 'Trusted: serial reference, error classification through errors.Is. Bounded: <=3 programs of <=5 steps, 6 '
         "keys. PostgreSQL excluded. For raft, hashicorp/raft's goroutines run free but every event the oracle depends "
         'on is sequenced by the harness.'}
