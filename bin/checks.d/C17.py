"""C17: check registration (units) and manifest text."""
from common import SYNC_RW, RAFT_ENV  # noqa: F401

CHECK = {'level': 'model_checking',
 'rule': 'T (transit backend): BFS (depth 1-3 quick / 2-5 thorough per key configuration, from 3/4 initial histories) over key-management '
         'histories {rotate, config min_decryption_version, config min_encryption_version, both, trim, backup, '
         'restore(force|no force), deletion_allowed, delete+create; for two cached-policy configurations (plain and transactional storage) also a rotation during which the first or the second storage write fails once, never merged with the uninterrupted state} on the real transit backend for 21 key '
         'configurations (4 AEAD types x plain/derived/convergent, rsa-2048, ecdsa-p256, ed25519 plain/derived, hmac; '
         'cache on/off, transactional/plain storage), deduplicated by (window, flags, backup relation, versions in '
         'memory/policy/archive, record classes). In EVERY state: encrypt/sign/hmac for every key_version 0..latest+1 x '
         'context x associated data x plaintext/message x parameter set; then every ciphertext/signature/HMAC produced '
         'so far on the path is decrypted/verified with matching inputs (must equal the original iff version inside '
         'the window and key material unchanged, else error), other context, other AAD, every other version prefix, '
         'other message, other parameters, every byte of the body bit-flipped, truncations/extension, every prefix '
         'character replaced, base64-text replacements, and rewrapped; stored policy/archive are compared with the '
         'model key identities (window versions present with the right material, trimmed material gone). states = '
         'new canonical states (last BFS level deduplicated per shard); distinct non-trivial = distinct (key '
         'configuration, canonical state). P (keysutil.Policy directly): 4 AEAD types x {not derived, counter KDF, HKDF, '
         'HKDF+convergent} x 2 version templates, all histories to depth 2/3 over {rotate, min_decryption 1..3, '
         'min_encryption 0|2|3} from a key with 1 and with 3 versions, caller-supplied nonces, same battery, plus the '
         'same records against the policy reloaded from storage. S (real Core, transit mounted, key cache empty after '
         'a start; transactional and plain storage): one of {raise min_decryption_version, raise '
         'min_encryption_version, rotate} racing one of {decrypt an old ciphertext, encrypt, encrypt under an older '
         'version, read, rotate, config} under every interleaving at storage-operation + contended-lock granularity up '
         'to the preemption bound: acknowledged management calls are in effect, ciphertexts handed out decrypt now and '
         'after a restart, the running node and the restarted one report the same key',
 'assumptions': ['acceptance of configuration requests is not specified by the property: only rejected=>unchanged, '
                 'accepted=>requested value in effect and the documented window invariants are demanded',
                 'a context is a bound input only for derived keys; vault:v0: is the legacy spelling of version 1; '
                 'strings denoting the same (version, bytes) are the same ciphertext',
                 'nonces cannot be supplied through the request paths of this version (always generated or derived); the '
                 'Policy unit supplies them directly (they are refused for every reachable mode)',
                 'legacy counter KDF combined with convergent encryption or with aes128-gcm96 is not enumerated: no request '
                 'path creates such a policy and both fail closed (see note in the evidence)',
                 'rsa-3072/4096, ecdsa-p384/p521 and external keys are not driven (same code paths, key generation cost)'],
 'units': [{'name': 'transit',
            'pkg': './internal/verifh/c17',
            'run': '^TestVerifC17$',
            'gomaxprocs': 2,
            'shards': {'quick': 16, 'thorough': 16},
            'timeout': {'quick': 600, 'thorough': 2400}},
           {'name': 'policy',
            'module': 'sdk',
            'pkg': './helper/verifh/c17p',
            'run': '^TestVerifC17P$',
            'gomaxprocs': 2,
            'shards': {'quick': 16, 'thorough': 16},
            'timeout': {'quick': 600, 'thorough': 1200}},
           {'name': 'sched',
            'pkg': './internal/verifh/core',
            'run': '^TestVerifC17S$',
            'rewrite': SYNC_RW,
            'gomaxprocs': 2,
            'shards': {'quick': 16, 'thorough': 16},
            'timeout': {'quick': 600, 'thorough': 2400}}]}

META = {'engines': 'E0 E1 E2 E3',
 'technique': 'explicit-state BFS over key-management histories on the real transit backend with an exhaustive '
              'input/mutation battery in every state, against a reference model of key identities and version window',
 'text': 'Round-trip, input binding and the version window are properties of (inputs x histories): every bounded '
         'history of rotate/config/trim/backup/restore/delete is executed on the real backend, and in every state the '
         'full lattice of key version, context, associated data, plaintext and parameters is encrypted/signed and every '
         'artefact produced so far is checked under matching and mismatching inputs and under every single-byte '
         'mutation. The reference is a map version->key identity plus a window, written from the statement.',
 'note': 'Trusted: the reading of unspecified cases listed in the assumptions, logical.InmemStorage / inmem physical '
         'backend. Bounded: <=7 key versions, 2 contexts, 3 AAD values, 3 plaintexts, 2 messages, BFS depth <=5 from '
         'the listed initial histories; encrypted_key_storage.go is not exercised (not used by the transit paths).'}
