"""C01: check registration (units) and manifest text."""
from common import SYNC_RW, RAFT_ENV  # noqa: F401

CHECK = {
    "level": "exploration",
    "rule": "T1: every stored record of {4 keys x 6 values x record format v1/v2 x term 1..3 x plain/transactional read path} under "
            "every single-bit flip, every truncation, 1-byte extensions, term-header and version-byte rewrites and every "
            "cross-key transplant, read back through the real barrier. T2: every API workload of depth <=2 (thorough 4) over a "
            "12-operation alphabet on a real Core; EVERY physical put of the server's whole life (init and unseal included) is "
            "checked by an independent AES-GCM opener (record opens under the keyring key of its term with the physical key as "
            "AAD) or must belong to the fixed bootstrap set, and every value is scanned for the workload's canaries (raw, hex, "
            "base64). distinct non-trivial = distinct (configuration, mutation kind, outcome) / (workload, key class)",
    "assumptions": [
        "replaying an authentic older record of the SAME key is not judged (the statement makes no freshness claim)",
        "storage paths are stored in clear by design; the scan is over values",
    ],
    "units": [
        {"name": "store", "pkg": "./internal/verifh/core", "run": "^TestVerifC01Store$", "rewrite": SYNC_RW,
         "shards": {"quick": 16, "thorough": 16}, "timeout": {"quick": 900, "thorough": 3400}},
        {"name": "tamper", "pkg": "./internal/vault/barrier", "run": "^TestVerifC01Tamper$",
         "shards": {"quick": 12, "thorough": 12}, "timeout": {"quick": 600, "thorough": 1200}},
    ],
}

META = {
    "engines": "E0 E2 E3",
    "technique": "exhaustive enumeration of the record tamper space on the real barrier; BFS over API workloads with an independent per-put AES-GCM opener and canary scan of the whole physical store",
    "text": "Authenticity and key binding are properties of every (record, corruption) pair: the space is enumerated completely for "
            "small records. Confidentiality of everything the server persists is a property of every workload: every physical put "
            "of bounded API workloads is opened with an independent AEAD implementation keyed from the keyring and scanned for "
            "plaintext canaries, which also pins the set of paths that bypass the barrier.",
    "note": "Trusted: Go's crypto/aes+cipher used by the independent opener, canary encoding list. Bounded: workload depth, record sizes <=1 KiB.",
}
