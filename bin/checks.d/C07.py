"""C07: check registration (units) and manifest text."""
from common import SYNC_RW, RAFT_ENV  # noqa: F401

CHECK = {
    "level": "exploration",
    "rule": "products enumerated through the real Core.HandleRequest: (A) 7 parents x {create, create-orphan} x 17 policy "
            "selections x no_parent x no_default_policy x period x custom id x type; (B) 7 parents x ttl x explicit_max_ttl x "
            "period x num_uses x 3 policy selections; (R) token roles x parents x policy selections x no_default x ttl; (L) "
            "auth-backend logins returning every subset of {default, p1, root, response-wrapping, control-group} x ttl x token "
            "type x period (and non-canonical spellings of the forbidden names); (M) the same policy selections through a "
            "two-phase login: a TOTP login-MFA enforcement covers the mount, the token is minted by sys/mfa/validate (fresh "
            "entity per attempt). Every created token is judged on the response and on auth/token/lookup. distinct non-trivial = "
            "distinct (parent, endpoint, resulting policies, orphan, periodic, type, ttl class) / refusal classes",
    "assumptions": [
        "only the 'never' clauses of the statement are checked; a refusal is never an alarm",
        "'default under the documented rule' is read as: default may appear on any child",
        "mount maximum = system default max lease TTL (768h); entity aliases and role bound CIDRs are not varied here",
    ],
    "units": [
        {"name": "core", "pkg": "./internal/verifh/core", "run": "^TestVerifC07$", "rewrite": SYNC_RW,
         "shards": {"quick": 16, "thorough": 16}, "timeout": {"quick": 900, "thorough": 3400}},
    ],
}

META = {
    "engines": "E0",
    "technique": "exhaustive enumeration of the token-create / role / login input lattice through the real Core, never-clauses oracle on response and lookup",
    "text": "Privilege escalation through token creation is a property of an input lattice (parent kind x caller capability x "
            "parameters x role configuration x login response); the lattice is enumerated completely for small domains and every "
            "accepted request is checked against the never-clauses (policies within the parent's, no root from non-root, no "
            "orphan/periodic/custom id without sudo, nothing from use-limited or batch parents, lifetimes bounded).",
    "note": "Trusted: the reading of the statement encoded in c07Judge. Independent dimensions are enumerated as separate products.",
}
