"""C13: check registration (units) and manifest text."""
from common import SYNC_RW, RAFT_ENV  # noqa: F401

CHECK = {'level': 'model_checking',
 'rule': 'BFS over put/delete(/get, and for the cache a put under an already cancelled context, which either takes '
         'effect or leaves no trace) histories on a fixed key universe, incl. cache stacks with a small configured size '
         'and with transactional writes read back through the parent; a state is distinct by (stack, sorted content, '
         'per-key last-op kind); every transition replays the history on a fresh real instance and compares the whole '
         'read battery (get/list/listpage x prefixes x after x limit) with a sorted-map reference; non-trivial = '
         'distinct (stack, canonical state)',
 'assumptions': ["reference model: sorted map; list = immediate children with '/' suffix for sub-prefixes; listpage = "
                 "entries of the sorted listing strictly greater than 'after', first 'limit' when limit > 0",
                 'file backend claimed only on its stated domain (directory-shaped prefixes)',
                 'PostgreSQL backend not reachable offline'],
 'units': [{'name': 'storage',
            'pkg': './internal/verifh/storage',
            'run': '^TestVerifC13$',
            'shards': {'quick': 16, 'thorough': 16},
            'timeout': {'quick': 600, 'thorough': 3000}},
           {'name': 'raft',
            'pkg': './internal/physical/raft',
            'run': '^TestVerifC13Raft$',
            'env': {'BAO_RAFT_INITIAL_MMAP_SIZE': '4194304'},
            'ulimit_kb': 67108864,
            'shards': {'quick': 4, 'thorough': 4},
            'timeout': {'quick': 900, 'thorough': 3000}}]}

META = {'engines': 'E0 E3',
 'technique': 'explicit-state BFS over operation histories on the real backends, full read battery vs sorted-map '
              'reference in every state',
 'text': 'Exhaustive within the bound: every put/delete(/get) history up to the stated depth over a key universe built '
         'to collide (nested keys, key that is also a prefix, shared string prefixes, unicode, 255-byte key) on every '
         'stack of layers, and in each reached state every get/list/listpage(prefix x after x limit) is compared with '
         'a sorted-map reference. This is the right level because the contract is a finite-state relation between a '
         'history and its reads; bugs hide in (content shape) x (after/limit) products the unit tests never form.',
 'note': 'Trusted: the sorted-map reference, Go runtime, tmpfs for file/bolt. Bounded: depth 3 (quick) / 4 (thorough), '
         'fixed key universe and after/limit sets; PostgreSQL excluded (no server offline); file backend only on its '
         'stated domain.'}
