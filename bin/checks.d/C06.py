"""C06: check registration (units) and manifest text."""
from common import SYNC_RW, RAFT_ENV  # noqa: F401

CHECK = {'level': 'fault_enumeration',
 'rule': 'for each request kind {leased secret read, auth-backend login, token create, create-orphan, batch create; '
         'secret/login/create also response-wrapped} on transactional (thorough: and plain) storage: a fault-free pass '
         "counts the request's N storage operations and M durable mutations, then run k=1..N fails operation k and run "
         'j=1..M crashes after mutation j and restarts; for secrets handed out, the index entry is also judged by what it is for (revoking the requesting token revokes the secret at its backend); a token minted by a request that reported an error is presented again on a restarted node whose lease restore is still running (restore pinned at an unrelated lease record) and must stay refused; distinct non-trivial = distinct (request kind, wrap, storage, '
         'failed operation kind and key class, client outcome) / (request, crash index)',
 'assumptions': ['deterministic crypto/rand seam: the token id a request generates is the same in the fault-free pass '
                 'and in every fault pass',
                 'lease/index records are read from the physical key space (sys/expire/id/, sys/expire/token/); index '
                 'values through sys/raw'],
 'units': [{'name': 'core',
            'pkg': './internal/verifh/core',
            'run': '^TestVerifC06$',
            'rewrite': {'sync': ['internal', 'sdk']},
            'shards': {'quick': 16, 'thorough': 16},
            'timeout': {'quick': 900, 'thorough': 3400}}]}

META = {'engines': 'E0 E2',
 'technique': 'exhaustive single-fault and crash-point enumeration over the physical write history of each '
              'credential-issuing request on a real Core',
 'text': 'Every storage operation of every credential-issuing request kind is failed once, and the server is crashed '
         'after every durable mutation and restarted; the oracle checks lease/index existence when the client received '
         'the credential, backend-side revocation + zero residue + unusable token when it received an error, and the '
         "stored-lease = tracked-lease invariant after restart. The quantifier is 'every failure/crash point within "
         "the request': a finite list the fault-free pass enumerates.",
 'note': 'Trusted: physx fault model (whole-operation failure, whole-key atomic writes), deterministic id generation. '
         'One fault per run.'}
