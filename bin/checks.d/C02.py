"""C02: check registration (units) and manifest text."""
from common import SYNC_RW, RAFT_ENV  # noqa: F401

CHECK = {
    "level": "model_checking",
    "rule": "(part T, identity-templated policy paths: every entity name x metadata value from {plain, +, *, a/b} with one- and two-substitution templates - a value is substituted literally and never acts as a wildcard; every history, depth <= 4, over request / change of the group metadata / change of the entity metadata - the very next request follows the attributes as they are now) three enumerations on the real Core, one oracle (an effect = operation-handler invocation of the recording backend, "
            "non-error response, stored canary in the response, or a change of the physical store; every effect needs an "
            "unauthenticated path or a live credential whose doc-derived reference ACL grants the namespace-qualified path, + sudo "
            "on root-protected paths). (L) lattice: ~100 credential states (absent, garbage, every single-character substitution / "
            "deletion / truncation / extension of a service, batch, namespace-service and namespace-batch token, namespace-suffix "
            "manipulations, revoked through 8 entry points finalised and not, expired (stored lease aged, drained and not; batch TTL), "
            "exhausted, entity disabled / deleted, CIDR mismatch, batch, orphan, root, one token per policy and pairs) x ~275 path "
            "forms (trailing / doubled slashes, relative segments, case, escapes, control bytes, mount boundary and prefix-sharing "
            "mounts, namespace by context / header / prefix) x 7 operations through Core.HandleRequest, and x 8 HTTP method forms x "
            "2 token headers through the in-process HTTP handler. (H) explicit-state BFS over histories of 19 management operations (incl. a policy PATCH refused for a stale check-and-set value) "
            "(policy write / restrict / delete, 3 revocation entry points, entity disable / enable, identity policy, group "
            "membership, namespace lock / unlock, remount, tune) to depth 3 (quick) / 5 (thorough); the reference state is a pure "
            "model, every transition is replayed on a fresh Core, a 41-request battery runs after every step and is judged in both "
            "directions after the last one. (S) stateless DFS over all interleavings (storage-operation granularity incl. "
            "post-operation points, preemption bound 2 / 3; lock granularity in the fine variants and three-thread variants with "
            "bound 1 / 2) of a request, a management operation and optionally a second request, cold and warm caches; requests in "
            "flight judged old-or-new, battery judged exactly after the join. non-trivial = distinct (credential class, channel, "
            "path form, path, operation, outcome, reference verdict) / (reference state, operation, battery outcome) / (scenario, outcome)",
    "assumptions": [
        "refuse-sound: a refusal is never an alarm, except in H/S where the reference is exact (existing keys on existing mounts) and grants must be honoured",
        "R1: a refused request may write token-store / lease bookkeeping (sys/token/, sys/expire/) when the presented token is use-limited; nothing else",
        "R2: a token of namespace N is live everywhere but its policies are qualified with N's path; -self token paths are served in the token's namespace",
        "R3: create vs update is decided by the real existence check: responses are judged on either capability, handler invocations on the operation executed",
        "R4/R5: a path with a '.' or '..' segment has no target (refused for every credential); a mount named without its trailing slash targets the mount root, "
        "special paths are matched on the path as written; no policy of the lattice matches a bare mount path",
        "R6/R7: re-spellings of the same credential are not forgeries: base64url slack bits, a batch token with another routing suffix or the legacy prefix, "
        "a signed service token whose unauthenticated version varint differs (payload and MAC equal)",
        "existence checks are routed before the ACL decision by design and are not operation handlers",
        "the token store creates a namespace's salt lazily on the first id hashed there (even a forged one): the fixture creates a token in every namespace first",
        "URL paths served by dedicated HTTP handlers (sys/seal-status, ...) never become logical requests; the listing query is ignored there",
        "remount and namespace deletion are asynchronous: 'the next request' is the next one after completion has been reported",
        "reference ACL = engine/c03ref (documented semantics) restricted to exact and trailing-* patterns; the default policy is overwritten with a known text; "
        "paths containing a newline are not probed (c03ref's '.' does not match it)",
        "part S is shared between shards by whole scenario (not by schedule subtree); part-S battery counters are per execution",
    ],
    "units": [
        {"name": "core", "pkg": "./internal/verifh/core", "run": "^TestVerifC02$", "rewrite": SYNC_RW, "gomaxprocs": 2,
         "shards": {"quick": 16, "thorough": 16}, "timeout": {"quick": 900, "thorough": 3400}},
    ],
}

META = {
    "engines": "E0 E1 E2 E3",
    "technique": "exhaustive credential x path x operation lattice through Core and HTTP handler; explicit-state BFS over management-operation "
                 "histories with a probe battery after every step; stateless DFS over request / management-operation interleavings "
                 "(cooperative scheduler, preemption bounding); one refuse-sound reference oracle (doc-derived ACL + liveness + mount special paths)",
    "text": "Authorization bypasses live in products the suite never forms: (dead-token state) x (path spelling) x (operation) x (channel), "
            "(management change) x (cache temperature) x (next request), (in-flight request) || (invalidation). All three are enumerated "
            "completely below small bounds on the real Core with a recording backend that makes handler invocations, returned data and "
            "storage changes observable, and judged against a reference written from the statement and the policy documentation.",
    "note": "Trusted: recording backend, engine/c03ref, scheduler shim, the hard-coded list of unauthenticated / root-protected system paths "
            "that are probed. Not modelled: templated / '+' policies, parameter constraints, control groups, MFA, response wrapping, "
            "quotas, performance standbys, EGPs; memory-model effects below lock granularity; the physical-storage cache is always on.",
}
