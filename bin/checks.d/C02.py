"""C02: check registration (units) and manifest text."""
from common import SYNC_RW, RAFT_ENV  # noqa: F401

CHECK = {
    "level": "model_checking",
    "rule": "three enumerations on the real Core, one oracle (an effect = operation-handler invocation of the recording backend, "
            "non-error response, stored canary in the response, or a change of the physical store; every effect needs an "
            "unauthenticated path or a live credential whose doc-derived reference ACL grants the namespace-qualified path, + sudo "
            "on root-protected paths). (L) lattice: ~100 credential states (absent, garbage, every single-character mutant / "
            "truncation / extension of a service, batch and namespace token, namespace-suffix manipulations, revoked through 8 "
            "entry points finalised and not, expired, exhausted, entity disabled / deleted, CIDR mismatch, batch, orphan, root, one "
            "token per policy and pairs) x ~150 path forms (trailing / doubled slashes, relative segments, case, escapes, control "
            "bytes, mount boundary, namespace by context / header / prefix) x 7 operations through Core.HandleRequest, and x 8 HTTP "
            "method forms x 2 token headers through the in-process HTTP handler. (H) explicit-state BFS over histories of 18 "
            "management operations to depth 3 (quick) / 5 (thorough), replayed on a fresh Core per transition, a 41-request battery "
            "judged in both directions after every step. (S) stateless DFS over all interleavings (storage-operation granularity "
            "incl. post-operation points, lock granularity in the fine variants; preemption bound 2 / 3) of a request, a management "
            "operation and optionally a second request, cold and warm caches, battery judged after the join. non-trivial = distinct "
            "(credential class, channel, path form, path, operation, outcome) / (reference state, operation, battery outcome) / "
            "(scenario, outcome)",
    "assumptions": [
        "refuse-sound: a refusal is never an alarm, except in H/S where the reference is exact (existing keys on existing mounts) and grants must be honoured",
        "R1: a refused request may write token-store / lease bookkeeping (sys/token/, sys/expire/) when the presented token is use-limited; nothing else",
        "R2: a token of namespace N is live everywhere but its policies are qualified with N's path; -self token paths are served in the token's namespace",
        "R3: create vs update is decided by the real existence check: responses are judged on either capability, handler invocations on the operation executed",
        "R6/R7: re-spellings of the same credential are not forgeries: base64url slack bits, a batch token with another routing suffix or the legacy prefix, "
        "a signed service token whose unauthenticated version varint differs (payload and MAC equal)",
        "existence checks are routed before the ACL decision by design and are not operation handlers",
        "remount and namespace deletion are asynchronous: 'the next request' is the next one after completion has been reported",
        "reference ACL = engine/c03ref (documented semantics) restricted to exact and trailing-* patterns; paths containing a newline are not probed (c03ref's '.' does not match it)",
    ],
    "units": [
        {"name": "core", "pkg": "./internal/verifh/core", "run": "^TestVerifC02$", "rewrite": SYNC_RW, "gomaxprocs": 2,
         "shards": {"quick": 16, "thorough": 16}, "timeout": {"quick": 900, "thorough": 3400}},
    ],
}

META = {
    "engines": "E0 E1 E2 E3",
    "technique": "exhaustive credential x path x operation lattice through Core and HTTP handler; explicit-state BFS over management-operation "
                 "histories with a probe battery after every step; stateless DFS over request / management-operation interleavings "
                 "(cooperative scheduler, preemption bounding); one refuse-sound reference oracle (doc-derived ACL + liveness + mount special paths)",
    "text": "Authorization bypasses live in products the suite never forms: (dead-token state) x (path spelling) x (operation) x (channel), "
            "(management change) x (cache temperature) x (next request), (in-flight request) || (invalidation). All three are enumerated "
            "completely below small bounds on the real Core with a recording backend that makes handler invocations, returned data and "
            "storage changes observable, and judged against a reference written from the statement and the policy documentation.",
    "note": "Trusted: recording backend, engine/c03ref, scheduler shim, the hard-coded list of unauthenticated / root-protected system paths "
            "that are probed. Not modelled: templated / '+' policies, parameter constraints, control groups, MFA, response wrapping, "
            "quotas, performance standbys, EGPs; memory-model effects below lock granularity.",
}
