"""C03: check registration (units) and manifest text."""
from common import SYNC_RW, RAFT_ENV  # noqa: F401

CHECK = {'level': 'exploration',
 'rule': 'A (acl): on the real ParseACLPolicy/NewACL/AllowOperation/Capabilities: 1 stanza x all 2^9 capability subsets; '
         'all pairs of the 316-pattern universe (1..3 segments over {a,b,ab,+}, endings none|/|*|/*; thorough: also 4 '
         'segments over {a,b,+}); all triples of patterns that match a common path; namespace placements; the same '
         'pattern in 2..3 policies x 12 capability sets; allowed/denied/required parameter combinations (single, pairs, '
         'triples) x 13 parameter maps; pagination limits x 12 limit values; min/max wrapping TTL x 10 wrap TTLs; root policy; EVERY attachment order; all request paths '
         'of <=3 segments with and without trailing slash; 10 operations. Each decision is compared with a reference '
         'written from policies.mdx (regexp matching, the five documented tie-break rules, set-wise merge) and two '
         'reference-free laws are checked: order independence of the whole observation vector, and Capabilities() <=> '
         'permitted operations; isolation: an ACL keeps its decisions after other ACLs were built from the same cached '
         'policy objects (allowed/denied/required lists of length 1..6, shared policy first or second; finding F13). K (core): on a real Core with namespaces ns1/ and ns1/sub/, tokens of the root and of a '
         'child namespace x policy pairs x request namespace: sys/capabilities, sys/capabilities-self and '
         'Core.Capabilities are compared with the operations HandleRequest actually lets through to a recording backend '
         '(incl. root-protected paths) and with the reference; listings under list_scan_response_keys_filter_path keep '
         'exactly the keys the reference lets the token read/list. distinct non-trivial = distinct (level, how the deciding '
         'pattern was found, number of competing patterns, tie-break rule needed, outcome reason, list-like)',
 'assumptions': ['where policies.mdx is silent the reading under which the current code is consistent is taken and written '
                 'down in the harness header (R1..R7): list/scan fallback to the slash-less path, which operations '
                 'parameter constraints apply to, merge of parameter constraints across stanzas, injection of the '
                 'pagination limit',
                 'list_scan_response_keys_filter_path (first attached wins by an explicit code comment), control groups, '
                 'MFA methods and path expiration are not part of the compared decision',
                 'parameter values are strings; literal segments contain neither + nor *'],
 'units': [{'name': 'acl',
            'pkg': './internal/verifh/c03acl',
            'run': '^TestVerifC03ACL$',
            'shards': {'quick': 16, 'thorough': 16},
            'timeout': {'quick': 300, 'thorough': 1800}},
           {'name': 'core',
            'pkg': './internal/verifh/c03core',
            'run': '^TestVerifC03Core$',
            'shards': {'quick': 8, 'thorough': 16},
            'timeout': {'quick': 300, 'thorough': 1500}}]}

META = {'engines': 'E0',
 'technique': 'exhaustive input enumeration of the real ACL compiler/evaluator against a reference written from the '
              'policy documentation; permutation of attachment order; Core-level agreement of reported capabilities with '
              'enforced operations across namespaces',
 'text': 'The decision is a pure function of (policy set, attachment order, namespace, path, operation, parameters). The '
         'whole product below a size bound is executed on the real code; the reference decides every case from the '
         'documented rules without sharing code or data structures with the implementation (patterns become regular '
         'expressions, merging is a set operation), and order independence / capability-list agreement are checked '
         'without any reference.',
 'note': 'Trusted: the reading of policies.mdx encoded in the 150-line reference, readings R1..R7 for undocumented '
         'corners. Not covered: patterns longer than 3 segments, literal segments containing + or *, non-string parameter '
         'values, templated policies, expiration.'}
