"""C04: check registration (units) and manifest text."""
from common import SYNC_RW, RAFT_ENV  # noqa: F401

CHECK = {'level': 'model_checking',
 'rule': 'H: BFS (depth 3/4) over create-child / create-orphan / 5 revocation entry points / renew / leased read / '
         'cubbyhole write / restart, deduplicated by token-tree model state, oracle for every token after every step. '
         'F: every failing storage op k of each revocation entry point on a 3-level tree with leases and cubbyhole '
         'data, retried until success; crash after every durable mutation j, restart, retry. S: revoke(C) || '
         'create-child(C) (|| third request) over all interleavings up to the preemption bound; non-trivial = distinct '
         'model states / (entry point, failed op kind, attempts) / schedule outcomes',
 'assumptions': ["'usable' = accepted by a real request (auth/token/lookup-self); leases count as revoked when the "
                 "backend's revoke handler ran, after an explicit deterministic drain of all due leases",
                 'cubbyhole removal is judged on the physical keys written by that token'],
 'units': [{'name': 'core',
            'pkg': './internal/verifh/core',
            'run': '^TestVerifC04$',
            'rewrite': {'sync': ['internal', 'sdk']},
            'gomaxprocs': 2,
            'shards': {'quick': 16, 'thorough': 16},
            'timeout': {'quick': 1200, 'thorough': 3400}},
           {'name': 'race',
            'pkg': './internal/verifh/core',
            'run': '^TestVerifC04$',
            'race': True,
            'tiers': ['thorough'],
            'env': {'VERIF_FREE': '1', 'VERIF_PART': 'S', 'GORACE': 'halt_on_error=0 exitcode=0 log_path={scratch}/race'},
            'shards': {'quick': 8, 'thorough': 8},
            'timeout': {'quick': 900, 'thorough': 2400}}
    ]}

META = {'engines': 'E0 E1 E2 E3',
 'technique': 'explicit-state BFS over token histories vs tree model; exhaustive single-fault and crash-point '
              'enumeration with retry; stateless DFS over revoke||create interleavings',
 'text': 'Three exhaustive enumerations on a real Core: every history up to depth 3/4 over the token-lifecycle '
         'alphabet (oracle on every token after every step), every single storage fault and every crash point inside '
         'each of five revocation entry points followed by retry, and every interleaving (preemption bound 2/3) of a '
         'tree revocation with concurrent child creation. The property quantifies over histories x schedules x fault '
         'positions; each factor is small and finite for a 3-level tree.',
 'note': 'Trusted: scheduler shim, token-tree model, deterministic drain. Bounded: <=4 tokens in H, one fault per run, '
         'namespaces not varied here.'}
