"""C18: check registration (units) and manifest text."""
from common import SYNC_RW, RAFT_ENV  # noqa: F401

CHECK = {'level': 'model_checking',
 'rule': 'one response-wrapping token (wrapped secret, secret wrapped inside a child namespace and attacked from the '
         'parent; thorough: also wrapped list and wrapped login) attacked by '
         'every multiset of 2 (thorough: 3) concurrent requests from {unwrap as client token, third-party unwrap, '
         'rewrap, lookup, revoke-by-accessor, direct cubbyhole read, misuse on another path}; stateless DFS over all '
         'interleavings at storage-operation granularity up to the preemption bound, followed by a sequential tail of '
         'repeated attempts on the original and every rewrapped token; E: expiry of the token after each prefix of '
         'lookup / rewrap calls x 4 wrap kinds; R: rewrap chains; F: every single storage fault inside a consuming '
         'request (unwrap, rewrap, revoke): payload disclosed at most once, the payload never outlives its token '
         'entry, nothing of the payload is left after the TTL; non-trivial = distinct (scenario, outcome)',
 'assumptions': ['a disclosure is a successful response containing the payload canary (for wrapped logins: a client '
                 'token)',
                 'TTL expiry is an explicit event: the stored lease times are moved into the past through sys/raw, the node '
                 'restarts and the harness revokes what is due (no virtual clock); part E enumerates every prefix of '
                 'non-consuming calls before that event for all three wrap kinds'],
 'units': [{'name': 'core',
            'pkg': './internal/verifh/core',
            'run': '^TestVerifC18$',
            'rewrite': {'sync': ['internal', 'sdk']},
            'gomaxprocs': 2,
            'shards': {'quick': 16, 'thorough': 16},
            'timeout': {'quick': 900, 'thorough': 3400}},
           {'name': 'race',
            'pkg': './internal/verifh/core',
            'run': '^TestVerifC18$',
            'race': True,
            'tiers': ['thorough'],
            'env': {'VERIF_FREE': '1', 'GORACE': 'halt_on_error=0 exitcode=0 log_path={scratch}/race'},
            'shards': {'quick': 8, 'thorough': 8},
            'timeout': {'quick': 900, 'thorough': 2400}}
    ]}

META = {'engines': 'E0 E1 E2',
 'technique': 'stateless DFS over thread interleavings of the real Core (cooperative scheduler, preemption bound 2) at '
              'storage-op granularity',
 'text': 'Every interleaving with at most 2 preemptions of each pair (thorough: triple) of concurrent requests on one '
         'wrapping token, then repeated sequential attempts; the payload must be obtained exactly once overall (at '
         'most once when a revoke/misuse thread is present), the token must be dead and its token/lease/cubbyhole '
         "records gone afterwards, lookup must report the creating path and the token must be refused elsewhere. 'At "
         "most once' under concurrency is decided by the order of the use-count decrement against lookups, exactly "
         'what schedule enumeration covers.',
 'note': 'Trusted: scheduler shim, canary-based disclosure detection. Not covered: control-group wrapping, '
         'expiry racing a request (expiry is explored as a sequential event only).'}
