"""C20: check registration (units) and manifest text."""
from common import SYNC_RW, RAFT_ENV  # noqa: F401

CHECK = {'level': 'exploration',
 'rule': 'S (in-package sdk/helper/shamir, crypto/rand.Reader replaced by an enumerated tape): field: mult/add/div/'
         'inverse on all 2^16 pairs against schoolbook GF(2^8) modulo 0x11b, all 2^24 triples for associativity/'
         'distributivity; evaluate against the power-form sum in the reference field; Split under EVERY coefficient '
         'tape (t=2: all 1-byte secrets, n=2..6; t=3: all 65536 tapes; 2-byte secrets t=2: all 65536 tapes): '
         'x-coordinates distinct and non-zero, every subset with >= t shares combines to the secret, and for every '
         'set of t-1 shares the map tape -> share values is a bijection under each secret (every observable value is '
         'produced by exactly one coefficient choice under every secret, so fewer than t shares rule out no secret); '
         'all 1-byte and 2-byte secrets x all 2<=t<=n<=6 x all subsets; malformed share lists (fewer than two, short, '
         'unequal length, duplicate x) rejected, well-formed ones equal reference Lagrange interpolation; 16..64 byte '
         'secrets with n up to 255. K (real Core): for every (n,t) <= (4,3) every sequence of share submissions '
         '(valid shares, repeats, a corrupted share, a foreign share, a key of impossible length) to unseal, rekey, '
         'share-based root rotation, generate-root and the unseal endpoint of a namespace with its own (n,t) Shamir seal: the '
         'operation completes exactly when t distinct shares have been supplied and all of them are genuine; progress '
         'counts distinct shares only. distinct non-trivial = distinct (section, shuffle, n, t, secret) / (operation, '
         'n, t, submission sequence)',
 'assumptions': ['the x-coordinate shuffle is driven by a fixed set of pseudo random streams (plus the all-zero '
                 'stream); the coefficient tape is enumerated exhaustively behind each of them',
                 'secrets of 16..64 bytes and n > 6 are covered by fixed pseudo random cases only (bounded, not '
                 'exhaustive); sub-threshold independence is enumerated for t <= 3 (t = 4 in the thorough tier)',
                 'a failed unseal/rekey/generate-root attempt (threshold reached with a bad share) discards the '
                 'collected shares: this is the reading under which the code is consistent'],
 'units': [{'name': 'shamir',
            'module': 'sdk',
            'pkg': './helper/shamir',
            'run': '^TestVerifC20Shamir$',
            'gomaxprocs': 1,
            'shards': {'quick': 16, 'thorough': 16},
            'timeout': {'quick': 600, 'thorough': 2400}},
           {'name': 'core',
            'pkg': './internal/verifh/c20core',
            'run': '^TestVerifC20Core$',
            'shards': {'quick': 8, 'thorough': 16},
            'timeout': {'quick': 600, 'thorough': 2400}}]}

META = {'engines': 'E0 E4 E2',
 'technique': 'exhaustive input enumeration of the real field arithmetic, Split and Combine with the random tape '
              'enumerated (counting argument for sub-threshold independence); exhaustive share-submission sequences '
              'against a real Core',
 'text': 'Correctness of the field is a statement over all pairs/triples of bytes; reconstruction is a statement over '
         'all subsets; secrecy below the threshold is a statement over ALL coefficient choices, which no example '
         'based test can form. With crypto/rand.Reader replaced by a tape, Split is a function and the whole tape '
         'space is enumerated: t-1 shares take every value exactly once under every secret. Threshold accounting in '
         'Core is checked over all submission orders with repeats and bad shares.',
 'note': 'Trusted: the 60-line schoolbook reference field; that crypto/rand.Reader is the only randomness source of '
         'the package (a Split that draws more bytes than the tape controls stops the harness with exit 2).'}
