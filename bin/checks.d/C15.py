"""C15: check registration (units) and manifest text."""
from common import SYNC_RW, RAFT_ENV  # noqa: F401

CHECK = {'level': 'exploration',
 'rule': 'Real PKI backend (pki.Factory, in-memory storage, 4 EC issuers: long-lived and short-lived with '
         'leaf_not_after_behavior err/truncate/permit). N: all 2^7 role switch sets {bare, subdomains, glob, wildcard, '
         'localhost, any_name, enforce_hostnames} x 4 allowed_domains sets x 65 label-built names (bare, sub, deep, '
         'string-suffix look-alikes, wildcards in every position, glob hits/misses, e-mail forms, IDNA/unicode dots, '
         'non-hostnames, localhost family) through issue(CN), issue(alt_names), issue(CN, exclude_cn_from_sans), sign(CSR CN+SAN) '
         '[thorough: x 3 SAN rules x 4 ttl rules]. P: CN x alt-name pairs (4 / all 65 CNs) over the same roles. U: '
         'use_csr_common_name x use_csr_sans x 128 switch sets x names, name under test in the CSR resp. in the API. L: 6 role ttl/not_after/not_after_bound/'
         'not_before_bound rules x 4 issuers x {issuer path, role issuer_ref} x 5 endpoints x 18 requested '
         'ttl/not_after/not_before. S: 4 SAN rules x use_csr_sans x IP x URI x otherName through issue, sign(CSR), '
         'sign(API). K: 8 role key rules x 6 CSR keys x 20 usage rules x 7 CSR extras (CA basic constraints, certSign, '
         'private extension + name constraints, subject O / serialNumber) x sign / sign-verbatim / sign-intermediate. '
         'Oracle on every accepted request, all clauses at once: verifies under the addressed issuer; serial fresh on '
         'the mount; not a CA unless sign-intermediate; NotAfter <= issuer NotAfter unless permit; NotAfter <= now + '
         'role/mount maximum (or the ttl / timestamp bound); key type/size; usages subset of the role; no foreign '
         'extension or subject attribute; every CN / DNS / e-mail SAN requested and admitted by the role read on DNS '
         'label sequences; IP / URI / otherName admitted. distinct non-trivial = distinct (section, role rule, name or '
         'request class, verdict)',
 'assumptions': ['role max_ttl, when set, is the bound (else the mount maximum); a role-level not_after, or a '
                 'request-level not_after under not_after_bound=permit (the default), is the role not bounding the '
                 'lifetime',
                 'sign-intermediate may outlive its issuer (it overrides the *leaf* behaviour by design) and '
                 'sign-verbatim is only held to issuer, serial, non-CA, lifetime and key clauses',
                 'glob patterns match across labels (documented); case-insensitive and trailing-dot-insensitive '
                 'label comparison; key_bits of a role is a minimum for submitted CSRs',
                 'on sign, use_csr_common_name / use_csr_sans decide whether the CSR or the API is the permitted '
                 'source of CN resp. SANs; a certificate name from the other source counts as not requested',
                 'lifetime bounds are compared against the clock read immediately after the request returned'],
 'units': [{'name': 'pki',
            'pkg': './internal/verifh/c15pki',
            'run': '^TestVerifC15$',
            'shards': {'quick': 16, 'thorough': 16},
            'timeout': {'quick': 600, 'thorough': 1700}}]}

META = {'engines': 'E0',
 'technique': 'exhaustive enumeration of role configuration x request grids on the real PKI backend, every issued '
              'certificate parsed and judged by an independent label-level oracle',
 'text': 'Role switches, allowed-domain sets, SAN rules, key rules, lifetime rules and requests built from a fixed '
         'label alphabet are enumerated completely per section; each accepted request yields a real certificate that '
         'must satisfy issuer, serial, CA, lifetime, key, usage and name clauses simultaneously. Refusals are never '
         'alarms, silent widening is. The existing tests re-derive expectations from the same string-suffix logic; '
         'the oracle here compares DNS label sequences.',
 'note': 'Trusted: crypto/x509 parsing and signature verification, x/net/idna for A-label normalisation in the '
         'oracle. Not covered: CEL roles, ACME, identity-templated domains, allow_token_displayname, RSA/Ed25519 '
         'issuers, names outside the 65-name alphabet.'}
