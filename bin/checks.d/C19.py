"""C19: check registration (units) and manifest text."""
from common import SYNC_RW, RAFT_ENV  # noqa: F401

CHECK = {'level': 'model_checking',
 'rule': 'for n in 1..N and every multiset of m=n+1 request kinds {read, write, denied, leased read, lookup-self, '
         'token create} presenting the same use-limited token: stateless DFS over all interleavings at '
         'storage-operation granularity (blocked-lock aware) up to the preemption bound on a real Core booted from a '
         'snapshot; final-use scenarios: n-1 lease-generating uses followed by every request kind as the final one '
         '(including a refused sys/seal, requests addressing a mount of a child namespace with the parent '
         "namespace's token, and a use-limited root token without ttl); two requests on a 1-use token at lock "
         'granularity; E: a use-limited token bound to an identity entity, every history (length <= n+3) over {present the token, disable the entity, enable it}: refused presentations count, at most n reach the backend, the token is gone after the n-th; final uses also on the endpoints that mint tokens without a parent (create-orphan, no_parent); non-trivial = distinct (scenario, observable outcome)',
 'assumptions': ['scheduling points: every operation reaching the physical backend + contended locks (vsync shim); '
                 'lease expiry is turned into an explicit drain step (recording expireFunc)',
                 'counted as authorised: backend operation-handler invocations + successful core-handled requests'],
 'units': [{'name': 'core',
            'pkg': './internal/verifh/core',
            'run': '^TestVerifC19$',
            'rewrite': {'sync': ['internal', 'sdk']},
            'gomaxprocs': 2,
            'shards': {'quick': 16, 'thorough': 16},
            'timeout': {'quick': 900, 'thorough': 3400}},
           {'name': 'race',
            'pkg': './internal/verifh/core',
            'run': '^TestVerifC19$',
            'race': True,
            'tiers': ['thorough'],
            'env': {'VERIF_FREE': '1', 'GORACE': 'halt_on_error=0 exitcode=0 log_path={scratch}/race'},
            'shards': {'quick': 8, 'thorough': 8},
            'timeout': {'quick': 900, 'thorough': 2400}}]}

META = {'engines': 'E0 E1 E2',
 'technique': 'stateless DFS over thread interleavings of the real Core (cooperative scheduler, iterative preemption '
              'bounding) at storage-op granularity',
 'text': 'Every interleaving with at most 2 (quick) / 3 (thorough) preemptions of m=n+1 concurrent requests on one '
         'use-limited token, for every multiset of six request kinds, n<=2 (quick) / n<=3 (thorough); the oracle '
         'counts backend invocations and successes, probes the token after quiescence, checks backend-side revocation '
         'of leases and identifies the final use from the physical op log. Races between re-read, decrement and store '
         'are schedule bugs; bounded exhaustive scheduling is the technique that decides them.',
 'note': 'Trusted: scheduler shim (sync->vsync rewrite), Go runtime. Not modelled: memory-model effects below lock '
         'granularity, goroutines spawned by requests (run free; their storage ops are counted as impure).'}
