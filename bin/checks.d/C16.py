"""C16: check registration (units) and manifest text."""
from common import SYNC_RW, RAFT_ENV  # noqa: F401

CHECK = {
    "level": "model_checking",
    "rule": "H: BFS (depth 3/4) over {issue on issuer 1|2, revoke(cert), rotate CRL, tidy, auto_rebuild on|off, delete "
            "issuer 2, re-import of issuer 2, delta CRLs on|off and their rotation, import of a foreign CA whose serial collides with a leaf, keyed intermediate CAs created inside the mount (int1 signed by issuer 2, int2 signed by int1) their revocation and the removal + re-import of a revoked intermediate (a serial belongs on the CRL of its own issuer, also when that issuer is revoked itself), issuer 1 re-issued on its existing key (two equivalent issuers sharing one CRL) and the mount's default issuer moved between the issuers (from the initial state and from a six-step pre-state with an unassigned revocation, a revoked leaf of issuer 1 and the re-issued issuer), a subordinate CA certificate signed outside of the mount and imported WITHOUT its key and its revocation, restart} on the real PKI engine in a real Core with two issuers, deduplicated by (per-cert issuer and "
            "revocation state, auto_rebuild, rotated-since-revoke, issuer-2-removed); the oracle runs after every step. F/K: "
            "every failing storage operation and every crash point of a revocation and of a CRL rotation, retried (after "
            "restart) until success. S: every interleaving (storage-operation and contended-lock points, bound 2/3) of concurrent revocations, of a revocation with a CRL rotation, with an issuer removal (whose rebuild does not take the revocation lock; judged BEFORE any further rotation) and of a configuration write with a reader. non-trivial = distinct model states / (operation, failed op kind and key class, attempts) "
            "/ crash indices",
    "assumptions": [
        "'complete CRL served now' = pki/issuer/<ref>/crl/der; with auto_rebuild on the serial must be listed after an explicit rotate",
        "certificates are unexpired throughout (1h TTL, executions take milliseconds)",
        "OCSP is queried through the GET form of the endpoint",
    ],
    "units": [
        {"name": "core", "pkg": "./internal/verifh/core", "run": "^TestVerifC16$", "rewrite": SYNC_RW,
         "shards": {"quick": 16, "thorough": 16}, "timeout": {"quick": 900, "thorough": 3400}},
           {'name': 'race',
            'pkg': './internal/verifh/core',
            'run': '^TestVerifC16$',
            'race': True,
            'tiers': ['thorough'],
            'env': {'VERIF_FREE': '1', 'VERIF_PART': 'S', 'GORACE': 'halt_on_error=0 exitcode=0 log_path={scratch}/race'},
            'shards': {'quick': 8, 'thorough': 8},
            'timeout': {'quick': 900, 'thorough': 2400}}
    ],
}

META = {
    "engines": "E0 E2 E3",
    "technique": "explicit-state BFS over PKI issue/revoke/rotate/tidy/config/restart histories; exhaustive single-fault and crash-point enumeration of revoke and CRL rebuild with retry",
    "text": "Every history up to depth 3/4 over the revocation-relevant PKI operations is executed on the real engine and, after "
            "every step, every successfully revoked serial is looked up through the status API, OCSP and its issuer's complete CRL "
            "(signature, number monotonicity, no entry loss). The window between writing the revocation record and rebuilding the "
            "CRL is enumerated completely: each storage operation is failed once and the server crashed after each durable write, "
            "followed by retries. 'Revoked stays revoked' is a history x crash-point property of a handful of storage writes.",
    "note": "Trusted: x509/ocsp parsing from the Go standard library and x/crypto, physx fault model. Bounded: <=3 certificates, 2 issuers, depth <=4; delta CRLs and cross-cluster revocation not explored.",
}
