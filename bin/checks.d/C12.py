"""C12: check registration (units) and manifest text."""
from common import SYNC_RW, RAFT_ENV  # noqa: F401

CHECK = {
    "level": "exploration",
    "rule": "M: every mount of every topology (nested / sibling / prefix-sharing paths, several mounts of one backend type, auth "
            "mounts, mounts inside a chain and a sibling of namespaces, a remount) x 16 traversal-style storage keys x "
            "{put,get,list,delete}: the recording backend runs the storage operation named by the request on the storage the "
            "router gave it; physical operations are attributed to the backend through an op tag. C: cubbyhole data of T read "
            "and listed with root / parent / sibling / child. N: a namespace-local token with a catch-all policy against every "
            "namespace x 5 paths x 2 operations, and namespace escapes through the path. S: every operation into a separately "
            "sealed namespace (also nested in another sealed one). G: a login token of org/team/ whose entity is made a member of "
            "a group with an all-powerful policy in every namespace of the tree in turn (with and without "
            "unsafe_cross_namespace_identity): refused, without backend invocation, everywhere outside org/team/ and below. "
            "distinct non-trivial = distinct (topology, mount, key shape, operation, result class)",
    "assumptions": [
        "a mount's prefix is discovered empirically (probe write) and must not be nested in another mount's prefix",
        "physical keys of core bookkeeping (token store, leases, counters) may change during a request; everything else outside the mount prefix may not",
    ],
    "units": [
        {"name": "core", "pkg": "./internal/verifh/core", "run": "^TestVerifC12$", "rewrite": SYNC_RW,
         "shards": {"quick": 8, "thorough": 8}, "timeout": {"quick": 900, "thorough": 3000}},
        {"name": "remount", "pkg": "./internal/verifh/core", "run": "^TestVerifC12Remount$", "rewrite": SYNC_RW,
         "shards": {"quick": 16, "thorough": 16}, "timeout": {"quick": 600, "thorough": 1200}},
    ],
}

META = {
    "engines": "E0 E2",
    "technique": "exhaustive enumeration of (topology x mount x traversal key x operation) on a real Core with physical-operation attribution; token x namespace x path lattice",
    "text": "Confinement is a property of every combination of mount table, namespace tree and client-supplied key/path: the product "
            "is enumerated on a real Core and each physical operation the backend causes is checked against the prefix of the mount "
            "it was routed to; cubbyhole, namespace scope and sealed-namespace clauses are enumerated over all token/namespace/path "
            "combinations of the topology.",
    "note": "Trusted: op tagging by the recording backend, empirical prefix discovery. Group-policy application modes other than the default are not varied.",
}
