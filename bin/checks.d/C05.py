"""C05: check registration (units) and manifest text."""
from common import SYNC_RW, RAFT_ENV  # noqa: F401

CHECK = {'level': 'exploration',
 'rule': 'L: every point of the lattice {increment, backend TTL, period, backend max, explicit max} in 6 values each x '
         '3 system (default,max) pairs x 6 elapsed times through the real CalculateTTL. R: BFS (depth 3/4) over '
         'renew(0|small|huge) / age-stored-records(10s|500s|2000s)+restart / restart on 6 credential kinds on a real '
         'Core; every renew response and every stored lease is checked against issue+effective max, expired leases '
         'must refuse renewal and be revoked, and the stored-lease = tracked-lease invariant must hold in every state. '
         'K: crash after every durable mutation of renew and revoke, restart, invariant. Z: BFS (depth 3/4) over histories of a namespace with its own seal (issue token / secret in it, in its child and in the root namespace, renew, age the stored records, seal, unseal, restart and the composites seal+unseal, age+seal+unseal, age+restart+unseal): stored = tracked whenever the namespace is unsealed (outside the sealed subtree while it is sealed), every pending lease has an armed timer or a queued revocation, leases that expired across a sealed period are revoked after the unseal. H: a real HA pair (two Cores on one store and one HA lock; explicit-state enumeration, depth 3/4, of histories over issue token / secret / secret in a child namespace / periodic login, renew all, revoke, fail-over (seal the active node), sys/step-down (the node stays unsealed and keeps its Core object), restart of both nodes, and each leadership change preceded by ageing every stored lease past its maximum; every history contains a leadership change): after every step the node that is active then tracks exactly the stored leases with an armed timer or a queued revocation each, renewals served after a leadership change stay below issue + effective max and never move the issue time, leases that expired across the change are revoked on the node that took over (record gone, secret revoked at its backend, token refused, renewal refused). W: a renewal racing the lease restore of a restart: one restore worker is pinned right after its read of the lease record, a renewal is issued, the worker released (both possible orders); afterwards the tracked expiry must equal the stored one. distinct non-trivial = '
         'distinct (outcome class, which bounds are active) / model states',
 'assumptions': ['time passing is simulated by rewriting issue/expire times of the stored lease records through '
                 'sys/raw and restarting (no clock seam); every time-bound oracle carries a slack of 2 s',
                 'leadership changes: a two-node HA pair on an in-memory HA lock (part H); the pause of a node after sys/step-down before it contends for the lock again is shortened from 10 s to 300 ms through a package variable (the repository tests do the same); whichever node holds the lock afterwards is taken as the active one'],
 'units': [{'name': 'lattice',
            'module': 'sdk',
            'pkg': './helper/verifh/c05l',
            'run': '^TestVerifC05L$',
            'shards': {'quick': 8, 'thorough': 8},
            'timeout': {'quick': 600, 'thorough': 1200}},
           {'name': 'core',
            'pkg': './internal/verifh/core',
            'run': '^TestVerifC05$',
            'rewrite': {'sync': ['internal', 'sdk']},
            'shards': {'quick': 16, 'thorough': 16},
            'timeout': {'quick': 900, 'thorough': 3400}}]}

META = {'engines': 'E0 E2 E3',
 'technique': 'exhaustive input-lattice enumeration of the real TTL computation; BFS over renew/age/restart, namespace seal/unseal and HA leadership-change histories '
              'on a real Core; crash-point and single-fault enumeration of renew / revoke / the revocation retry sequence',
 'text': 'The TTL arithmetic is a pure function of a small tuple: the whole lattice is enumerated and compared with '
         "the bound the statement gives. Renewal sequences and 'every stored lease is tracked' are history/crash "
         'properties: all histories to depth 3/4 and all crash points of renew/revoke are executed on a real Core with '
         'stored records aged in place.',
 'note': 'Trusted: the arithmetic reading of the statement, aging stored records as a stand-in for elapsed time. '
         'Values outside the 6-point lattice are not covered.'}
