"""C11: check registration (units) and manifest text."""
from common import SYNC_RW, RAFT_ENV  # noqa: F401

CHECK = {
    "level": "fault_enumeration",
    "rule": "A: every script of per-call behaviours {ok, error, panic} x {request, response} for k=1..2 (thorough 3) audit devices "
            "(9^k scripts) x 7 request kinds on a real Core with a recording backend, each repeated to cover map-order rotations; "
            "oracle on the merged event log: backend operation => an earlier accepted request entry, data returned => an earlier "
            "accepted response entry, all devices failing => error without secret material. M: the management calls that change what the log holds "
            "(mount tune setting audit_non_hmac_request_keys, removal of an audit device) with every one of their storage operations failing once; "
            "afterwards the broker must exempt a value from HMAC only if the stored configuration lists its key, and a device the API still lists must still receive the request entry before the backend runs. H: every payload tree of depth <=2 "
            "(thorough: + depth 3 over a reduced alphabet), width <=2 over {map, slice} x 7 leaf kinds, in request data and response "
            "data, x HMAC-accessor on/off x exempt-key choice, through the real formatter; distinct non-trivial = distinct "
            "(script, request kind, outcome) / (tree, placement, configuration)",
    "assumptions": [
        "device iteration order is a Go map: each script is executed repeatedly and the observed orders are counted",
        "time-shaped strings and map keys are exempt by construction and carry no canaries",
        "a value is 'explicitly exempted' when its nearest enclosing map key is in the non-HMAC key list",
    ],
    "units": [
        {"name": "core", "pkg": "./internal/verifh/core", "run": "^TestVerifC11A$", "rewrite": SYNC_RW,
         "shards": {"quick": 16, "thorough": 16}, "timeout": {"quick": 900, "thorough": 3000}},
        {"name": "format", "pkg": "./internal/verifh/c11fmt", "run": "^TestVerifC11H$",
         "shards": {"quick": 16, "thorough": 16}, "timeout": {"quick": 600, "thorough": 3000}},
    ],
}

META = {
    "engines": "E0",
    "technique": "exhaustive enumeration of audit-device fault scripts on a real Core; exhaustive enumeration of payload trees through the real audit formatter with canary scanning",
    "text": "Audit-before-effect is a property of every pattern of per-device success/failure/panic: all 9^k scripts are executed for "
            "each request kind and the merged event order is checked. 'No plaintext secret in an entry' is a property of every "
            "payload shape: all trees below a depth/width bound are formatted by the real formatter and the output bytes are "
            "scanned for unique canaries.",
    "note": "Trusted: canary scanning (raw and base64), scripted device and recording backend event order. Raw mode and non-JSON sinks are out of scope.",
}
