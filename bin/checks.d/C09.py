"""C09: check registration (units) and manifest text."""
from common import SYNC_RW, RAFT_ENV  # noqa: F401

CHECK = {'level': 'model_checking',
 'rule': 'every log up to the length bound over {7 plain writes, 5 transaction templates x every start index, a chunked write or chunked transaction (2 chunks via the real ChunkingApply, other entries may land between the chunks, at most one in flight)}; every batch goes through the chunking wrapper exactly as raft feeds it; after a restart or snapshot install delivery resumes at the persisted index; for '
         'each log every batching, every restart position and every snapshot-install position (x every already-applied '
         'prefix) is executed on real FSMs and compared with the serial value-based reference; non-trivial = distinct '
         '(reference verdict vector, final state, length). Unit leader: the verdict the LEADER reports to its client (RaftTransaction.Commit through the real raft library; every merge of pairs from 10 colliding programs; proposals chunked into 48-byte chunks and unchunked) equals the same serial reference, and a refused transaction leaves nothing behind',
 'assumptions': ['log entries are built the way an honest leader builds them (real createVerificationEntry / '
                 'createListVerificationEntry over the reference state at the start index; honest LowestActiveIndex)',
                 'bolt on tmpfs; hashicorp/raft itself is not in the loop (ApplyBatch/Restore/NewFSM are driven '
                 'directly)'],
 'units': [{'name': 'raftfsm',
            'pkg': './internal/physical/raft',
            'run': '^TestVerifC09$',
            'env': {'BAO_RAFT_INITIAL_MMAP_SIZE': '4194304'},
            'ulimit_kb': 67108864,
            'shards': {'quick': 16, 'thorough': 16},
            'timeout': {'quick': 900, 'thorough': 3000}},
           {'name': 'leader',
            'pkg': './internal/physical/raft',
            'run': '^TestVerifC09Leader$',
            'env': {'BAO_RAFT_INITIAL_MMAP_SIZE': '4194304'},
            'ulimit_kb': 67108864,
            'shards': {'quick': 16, 'thorough': 16},
            'timeout': {'quick': 900, 'thorough': 3000}}]}

META = {'engines': 'E0 E3',
 'technique': 'explicit-state enumeration of logs x batchings x restart/snapshot positions on real FSM replicas vs '
              'serial value-based reference',
 'text': 'Exhaustive within the bound: all logs of length <=3 (quick) / <=4 (thorough) over plain writes, chunked entries and '
         'transactions with every start index, each applied under every batch partition, every restart position and '
         'every snapshot-install position on real bolt-backed FSMs; verdicts and final bytes must equal a serial '
         'reference. The property is a determinism claim over (log x batching x crash point), a finite product that '
         'can be enumerated completely for small logs.',
 'note': 'Trusted: reference model, honest-leader log construction. Not covered: hashicorp/raft internals, logs longer '
         'than the bound, more than one chunked entry in flight, more than two chunks, term changes.'}
