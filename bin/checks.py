"""Registry of checks: which harness units decide which property.

One module per property lives in bin/checks.d/<Cxx>.py and defines

  CHECK = {"level": ..., "rule": ..., "assumptions": [...], "units": [unit, ...]}
  META  = {"engines": ..., "technique": ..., "text": ..., "note": ...}

unit keys: name, module ("" = root module, "sdk"), pkg (go package pattern relative to the module dir), run
(go test -run regex), shards {tier: n}, timeout {tier: s}, rewrite {import: [roots]} (import rewriting through the
overlay), gomaxprocs, env, ulimit_kb, tiers.
"""
import glob
import importlib.util
import os
import sys

_here = os.path.dirname(os.path.abspath(__file__))
sys.path.insert(0, _here)

CHECKS, META = {}, {}
for _f in sorted(glob.glob(os.path.join(_here, "checks.d", "C*.py"))):
    _pid = os.path.basename(_f)[:-3]
    _spec = importlib.util.spec_from_file_location("checks_d_" + _pid, _f)
    _m = importlib.util.module_from_spec(_spec)
    _spec.loader.exec_module(_m)
    CHECKS[_pid] = _m.CHECK
    META[_pid] = _m.META

_PENDING = "check not built yet in this session (planned in DESIGN.md section 3); no claim is made"
NOT_APPLICABLE = {("C%02d" % i): _PENDING for i in range(1, 21)}
