"""Registry of checks: which harness units decide which property.

unit keys: name, module ("" = root module, "sdk"), pkg (go package pattern relative
to the module dir), run (go test -run regex), shards {tier: n}, timeout {tier: s},
rewrite {import: [roots]} (import rewriting through the overlay), gomaxprocs, env.
"""

SYNC_RW = {"sync": ["internal", "sdk"]}

RAFT_ENV = {"BAO_RAFT_INITIAL_MMAP_SIZE": "4194304"}

RAFT_ENV = {"BAO_RAFT_INITIAL_MMAP_SIZE": "4194304"}

CHECKS = {
    "C05": {
        "level": "exploration",
        "rule": "L: every point of the lattice {increment, backend TTL, period, backend max, explicit max} in 6 values each x 3 system "
                "(default,max) pairs x 6 elapsed times through the real CalculateTTL. R: BFS (depth 3/4) over renew(0|small|huge) / "
                "age-stored-records(10s|500s|2000s)+restart / restart on 6 credential kinds on a real Core; every renew response and "
                "every stored lease is checked against issue+effective max, expired leases must refuse renewal and be revoked, and the "
                "stored-lease = tracked-lease invariant must hold in every state. K: crash after every durable mutation of renew and "
                "revoke, restart, invariant. distinct non-trivial = distinct (outcome class, which bounds are active) / model states",
        "assumptions": [
            "time passing is simulated by rewriting issue/expire times of the stored lease records through sys/raw and restarting "
            "(no clock seam); every time-bound oracle carries a slack of 2 s",
            "namespaces sealed/unsealed transitions are not varied in this check",
        ],
        "units": [
            {"name": "lattice", "module": "sdk", "pkg": "./helper/verifh/c05l", "run": "^TestVerifC05L$",
             "shards": {"quick": 8, "thorough": 8}, "timeout": {"quick": 600, "thorough": 1200}},
            {"name": "core", "pkg": "./internal/verifh/core", "run": "^TestVerifC05$", "rewrite": SYNC_RW,
             "shards": {"quick": 16, "thorough": 16}, "timeout": {"quick": 900, "thorough": 3400}},
        ],
    },
    "C06": {
        "level": "fault_enumeration",
        "rule": "for each request kind {leased secret read, auth-backend login, token create, create-orphan, batch create; "
                "secret/login/create also response-wrapped} on transactional (thorough: and plain) storage: a fault-free "
                "pass counts the request's N storage operations and M durable mutations, then run k=1..N fails operation k "
                "and run j=1..M crashes after mutation j and restarts; distinct non-trivial = distinct (request kind, "
                "wrap, storage, failed operation kind and key class, client outcome) / (request, crash index)",
        "assumptions": [
            "deterministic crypto/rand seam: the token id a request generates is the same in the fault-free pass and in every fault pass",
            "lease/index records are read from the physical key space (sys/expire/id/, sys/expire/token/); index values through sys/raw",
        ],
        "units": [
            {"name": "core", "pkg": "./internal/verifh/core", "run": "^TestVerifC06$", "rewrite": SYNC_RW,
             "shards": {"quick": 16, "thorough": 16}, "timeout": {"quick": 900, "thorough": 3400}},
        ],
    },
    "C04": {
        "level": "model_checking",
        "rule": "H: BFS (depth 3/4) over create-child / create-orphan / 5 revocation entry points / renew / leased read / "
                "cubbyhole write / restart, deduplicated by token-tree model state, oracle for every token after every step. "
                "F: every failing storage op k of each revocation entry point on a 3-level tree with leases and cubbyhole "
                "data, retried until success; crash after every durable mutation j, restart, retry. S: revoke(C) || "
                "create-child(C) (|| third request) over all interleavings up to the preemption bound; "
                "non-trivial = distinct model states / (entry point, failed op kind, attempts) / schedule outcomes",
        "assumptions": [
            "'usable' = accepted by a real request (auth/token/lookup-self); leases count as revoked when the backend's "
            "revoke handler ran, after an explicit deterministic drain of all due leases",
            "cubbyhole removal is judged on the physical keys written by that token",
        ],
        "units": [
            {"name": "core", "pkg": "./internal/verifh/core", "run": "^TestVerifC04$", "rewrite": SYNC_RW, "gomaxprocs": 2,
             "shards": {"quick": 16, "thorough": 16}, "timeout": {"quick": 1200, "thorough": 3400}},
        ],
    },
    "C14": {
        "level": "model_checking",
        "rule": "S: every multiset of 2 (and selected/all 3) concurrent requests from {put cas=1, put, patch, read, read v1, "
                "delete, delete v1, undelete v1, destroy v1, metadata max_versions=1, metadata cas_required} on one secret "
                "path, all interleavings at storage-op granularity up to the preemption bound, linearizability decided by "
                "brute force over all real-time-consistent sequential orders (reference = the engine run sequentially on a "
                "fresh Core). H: all sequential histories to depth 3/4 vs an independent versioned-register model. F: every "
                "single storage failure in each write-type call, transactional and non-transactional storage; "
                "non-trivial = distinct (scenario, observations, final state)",
        "assumptions": [
            "sequential reference for S is the implementation itself; sequential semantics are judged separately by the H model",
            "the H model specifies versions, CAS, reads, delete/undelete/destroy; error classes of patch on a missing version and metadata pruning are only covered through S",
        ],
        "units": [
            {"name": "core", "pkg": "./internal/verifh/core", "run": "^TestVerifC14$", "rewrite": SYNC_RW, "gomaxprocs": 2,
             "shards": {"quick": 16, "thorough": 16}, "timeout": {"quick": 900, "thorough": 3400}},
        ],
    },
    "C18": {
        "level": "model_checking",
        "rule": "one response-wrapping token (wrapped secret; thorough: also wrapped list and wrapped login) attacked by every "
                "multiset of 2 (thorough: 3) concurrent requests from {unwrap as client token, third-party unwrap, rewrap, "
                "lookup, revoke-by-accessor, direct cubbyhole read, misuse on another path}; stateless DFS over all "
                "interleavings at storage-operation granularity up to the preemption bound, followed by a sequential tail of "
                "repeated attempts on the original and every rewrapped token; non-trivial = distinct (scenario, outcome)",
        "assumptions": [
            "a disclosure is a successful response containing the payload canary (for wrapped logins: a client token)",
            "TTL expiry of wrapping tokens is not explored in this check (needs a clock seam); see DESIGN.md",
        ],
        "units": [
            {"name": "core", "pkg": "./internal/verifh/core", "run": "^TestVerifC18$", "rewrite": SYNC_RW, "gomaxprocs": 2,
             "shards": {"quick": 16, "thorough": 16}, "timeout": {"quick": 900, "thorough": 3400}},
        ],
    },
    "C19": {
        "level": "model_checking",
        "rule": "for n in 1..N and every multiset of m=n+1 request kinds {read, write, denied, leased read, lookup-self, "
                "token create} presenting the same use-limited token: stateless DFS over all interleavings at "
                "storage-operation granularity (blocked-lock aware) up to the preemption bound on a real Core booted from a "
                "snapshot; non-trivial = distinct (scenario, observable outcome)",
        "assumptions": [
            "scheduling points: every operation reaching the physical backend + contended locks (vsync shim); lease expiry "
            "is turned into an explicit drain step (recording expireFunc)",
            "counted as authorised: backend operation-handler invocations + successful core-handled requests",
        ],
        "units": [
            {"name": "core", "pkg": "./internal/verifh/core", "run": "^TestVerifC19$", "rewrite": SYNC_RW, "gomaxprocs": 2,
             "shards": {"quick": 16, "thorough": 16}, "timeout": {"quick": 900, "thorough": 3400}},
        ],
    },
    "C08": {
        "level": "model_checking",
        "rule": "every merge order of the steps of 2 (and 3) transaction/plain-write programs drawn from a 26-template "
                "alphabet built to collide (write skew, phantoms, blind writes, RMW, paginated lists, read-your-writes, "
                "read-only misuse, rollback), on every transactional stack; each step is compared with a serial reference "
                "in commit order; states = (program set, initial state) scenarios, transitions = steps executed on the "
                "implementation; non-trivial = distinct (stack, commits, conflicts, final state)",
        "assumptions": [
            "serial reference in commit order; value-based validation (A-B-A commits); spurious conflicts are allowed by "
            "the statement ('commits only if') and only counted, except that a conflict with no committed change since "
            "begin is a violation",
            "PostgreSQL transactional backend not reachable offline",
        ],
        "units": [
            {"name": "storage", "pkg": "./internal/verifh/storage", "run": "^TestVerifC08$",
             "shards": {"quick": 16, "thorough": 16}, "timeout": {"quick": 900, "thorough": 3000}},
            {"name": "raft", "pkg": "./internal/physical/raft", "run": "^TestVerifC08Raft$", "env": RAFT_ENV,
             "ulimit_kb": 64 * 1024 * 1024,
             "shards": {"quick": 16, "thorough": 16}, "timeout": {"quick": 600, "thorough": 3000}},
        ],
    },
    "C09": {
        "level": "model_checking",
        "rule": "every log up to the length bound over {6 plain writes, 5 transaction templates x every start index}; "
                "for each log every batching, every restart position and every snapshot-install position (x every "
                "already-applied prefix) is executed on real FSMs and compared with the serial value-based reference; "
                "non-trivial = distinct (reference verdict vector, final state, length)",
        "assumptions": [
            "log entries are built the way an honest leader builds them (real createVerificationEntry / "
            "createListVerificationEntry over the reference state at the start index; honest LowestActiveIndex)",
            "bolt on tmpfs; hashicorp/raft itself is not in the loop (ApplyBatch/Restore/NewFSM are driven directly)",
        ],
        "units": [
            {"name": "raftfsm", "pkg": "./internal/physical/raft", "run": "^TestVerifC09$", "env": RAFT_ENV,
             "ulimit_kb": 64 * 1024 * 1024,
             "shards": {"quick": 16, "thorough": 16}, "timeout": {"quick": 900, "thorough": 3000}},
        ],
    },
    "C13": {
        "level": "model_checking",
        "rule": "BFS over put/delete(/get) histories on a fixed key universe; a state is distinct by (stack, sorted "
                "content, per-key last-op kind); every transition replays the history on a fresh real instance and "
                "compares the whole read battery (get/list/listpage x prefixes x after x limit) with a sorted-map "
                "reference; non-trivial = distinct (stack, canonical state)",
        "assumptions": [
            "reference model: sorted map; list = immediate children with '/' suffix for sub-prefixes; "
            "listpage = entries of the sorted listing strictly greater than 'after', first 'limit' when limit > 0",
            "file backend claimed only on its stated domain (directory-shaped prefixes)",
            "PostgreSQL backend not reachable offline",
        ],
        "units": [
            {"name": "storage", "pkg": "./internal/verifh/storage", "run": "^TestVerifC13$",
             "shards": {"quick": 16, "thorough": 16}, "timeout": {"quick": 600, "thorough": 3000}},
            {"name": "raft", "pkg": "./internal/physical/raft", "run": "^TestVerifC13Raft$", "env": RAFT_ENV,
             "ulimit_kb": 64 * 1024 * 1024,
             "shards": {"quick": 4, "thorough": 4}, "timeout": {"quick": 900, "thorough": 3000}},
        ],
    },
}

# Per-property manifest text.
META = {
    "C05": {
        "engines": "E0 E2 E3",
        "technique": "exhaustive input-lattice enumeration of the real TTL computation; BFS over renew/age/restart histories on a real Core; crash-point enumeration",
        "text": "The TTL arithmetic is a pure function of a small tuple: the whole lattice is enumerated and compared with the bound the "
                "statement gives. Renewal sequences and 'every stored lease is tracked' are history/crash properties: all histories to "
                "depth 3/4 and all crash points of renew/revoke are executed on a real Core with stored records aged in place.",
        "note": "Trusted: the arithmetic reading of the statement, aging stored records as a stand-in for elapsed time. Values outside the 6-point lattice are not covered.",
    },
    "C06": {
        "engines": "E0 E2",
        "technique": "exhaustive single-fault and crash-point enumeration over the physical write history of each credential-issuing request on a real Core",
        "text": "Every storage operation of every credential-issuing request kind is failed once, and the server is crashed after every "
                "durable mutation and restarted; the oracle checks lease/index existence when the client received the credential, "
                "backend-side revocation + zero residue + unusable token when it received an error, and the stored-lease = tracked-lease "
                "invariant after restart. The quantifier is 'every failure/crash point within the request': a finite list the fault-free pass enumerates.",
        "note": "Trusted: physx fault model (whole-operation failure, whole-key atomic writes), deterministic id generation. One fault per run.",
    },
    "C04": {
        "engines": "E0 E1 E2 E3",
        "technique": "explicit-state BFS over token histories vs tree model; exhaustive single-fault and crash-point enumeration with retry; stateless DFS over revoke||create interleavings",
        "text": "Three exhaustive enumerations on a real Core: every history up to depth 3/4 over the token-lifecycle alphabet (oracle on "
                "every token after every step), every single storage fault and every crash point inside each of five revocation entry "
                "points followed by retry, and every interleaving (preemption bound 2/3) of a tree revocation with concurrent child "
                "creation. The property quantifies over histories x schedules x fault positions; each factor is small and finite for a "
                "3-level tree.",
        "note": "Trusted: scheduler shim, token-tree model, deterministic drain. Bounded: <=4 tokens in H, one fault per run, namespaces not varied here.",
    },
    "C14": {
        "engines": "E0 E1 E2 E3",
        "technique": "stateless DFS over thread interleavings of the real Core + brute-force linearizability; BFS over histories vs model; exhaustive single-fault injection",
        "text": "Concurrent requests on one kv-v2 path are explored over every interleaving (preemption bound 2; thorough: unbounded for "
                "pairs) and each execution must be linearizable; sequential histories to depth 3/4 are checked against an independent "
                "versioned-register model; each write-type call is re-run with its k-th storage operation failing for every k. "
                "CAS exactness and version consecutiveness under concurrency are schedule properties; failure atomicity is a "
                "fault-position property; both spaces are finite for 2-3 short requests.",
        "note": "Trusted: scheduler shim, the sequential engine as linearizability reference, the H model. Bounded: one path, <=3 requests, depth <=4.",
    },
    "C18": {
        "engines": "E0 E1 E2",
        "technique": "stateless DFS over thread interleavings of the real Core (cooperative scheduler, preemption bound 2) at storage-op granularity",
        "text": "Every interleaving with at most 2 preemptions of each pair (thorough: triple) of concurrent requests on one wrapping "
                "token, then repeated sequential attempts; the payload must be obtained exactly once overall (at most once when a "
                "revoke/misuse thread is present), the token must be dead and its token/lease/cubbyhole records gone afterwards, "
                "lookup must report the creating path and the token must be refused elsewhere. 'At most once' under concurrency is "
                "decided by the order of the use-count decrement against lookups, exactly what schedule enumeration covers.",
        "note": "Trusted: scheduler shim, canary-based disclosure detection. Not covered: TTL expiry of the wrapping token, control-group wrapping.",
    },
    "C19": {
        "engines": "E0 E1 E2",
        "technique": "stateless DFS over thread interleavings of the real Core (cooperative scheduler, iterative preemption bounding) at storage-op granularity",
        "text": "Every interleaving with at most 2 (quick) / 3 (thorough) preemptions of m=n+1 concurrent requests on one use-limited "
                "token, for every multiset of six request kinds, n<=2 (quick) / n<=3 (thorough); the oracle counts backend "
                "invocations and successes, probes the token after quiescence, checks backend-side revocation of leases and "
                "identifies the final use from the physical op log. Races between re-read, decrement and store are schedule bugs; "
                "bounded exhaustive scheduling is the technique that decides them.",
        "note": "Trusted: scheduler shim (sync->vsync rewrite), Go runtime. Not modelled: memory-model effects below lock granularity, "
                "goroutines spawned by requests (run free; their storage ops are counted as impure).",
    },
    "C08": {
        "engines": "E0 E3",
        "technique": "exhaustive enumeration of all interleavings of small transaction programs on the real backends vs serial commit-order reference",
        "text": "Exhaustive within the bound: all interleavings of every pair (and selected triples) of 26 colliding transaction "
                "programs on transactional inmem and all wrapping layers, plus the real raft backend with the FSM-apply "
                "event owned by the harness (every lag shape up to the bound). Serializability is a property of "
                "all schedules; for 2-3 short transactions the schedule space is finite and small enough to cover completely.",
        "note": "Trusted: serial reference, error classification through errors.Is. Bounded: <=3 programs of <=5 steps, 6 keys. "
                "PostgreSQL excluded. For raft, hashicorp/raft's goroutines run free but every event the oracle depends on is sequenced by the harness.",
    },
    "C09": {
        "engines": "E0 E3",
        "technique": "explicit-state enumeration of logs x batchings x restart/snapshot positions on real FSM replicas vs serial value-based reference",
        "text": "Exhaustive within the bound: all logs of length <=3 (quick) / <=4 (thorough) over plain writes and transactions with "
                "every start index, each applied under every batch partition, every restart position and every snapshot-install "
                "position on real bolt-backed FSMs; verdicts and final bytes must equal a serial reference. The property is a "
                "determinism claim over (log x batching x crash point), a finite product that can be enumerated completely for small logs.",
        "note": "Trusted: reference model, honest-leader log construction. Not covered: hashicorp/raft internals, logs longer than the bound, chunked entries.",
    },
    "C13": {
        "engines": "E0 E3",
        "technique": "explicit-state BFS over operation histories on the real backends, full read battery vs sorted-map reference in every state",
        "text": "Exhaustive within the bound: every put/delete(/get) history up to the stated depth over a key universe built to "
                "collide (nested keys, key that is also a prefix, shared string prefixes, unicode, 255-byte key) on every stack of "
                "layers, and in each reached state every get/list/listpage(prefix x after x limit) is compared with a sorted-map "
                "reference. This is the right level because the contract is a finite-state relation between a history and its reads; "
                "bugs hide in (content shape) x (after/limit) products the unit tests never form.",
        "note": "Trusted: the sorted-map reference, Go runtime, tmpfs for file/bolt. Bounded: depth 3 (quick) / 4 (thorough), fixed key universe and after/limit sets; PostgreSQL excluded (no server offline); file backend only on its stated domain.",
    },
}

_PENDING = "check not built yet in this session (planned in DESIGN.md section 3); no claim is made"
NOT_APPLICABLE = {("C%02d" % i): _PENDING for i in range(1, 21)}
