"""Shared constants for check registrations (bin/checks.d/*.py)."""

# rewrite every `import "sync"` under /repo/internal and /repo/sdk to the vsync shim
SYNC_RW = {"sync": ["internal", "sdk"]}

# bolt's default initial mmap is 100 GB of address space per database
RAFT_ENV = {"BAO_RAFT_INITIAL_MMAP_SIZE": "4194304"}
