// Package physx is an instrumented physical backend (engine E2).  It wraps a
// real backend (in practice sdk/physical/inmem, transactional or not), sits at
// the very bottom of a Core (CoreConfig.Physical) and
//   - yields to the cooperative scheduler before every operation issued by a
//     managed thread (storage-operation granularity),
//   - logs every operation with its issuer,
//   - injects "the k-th operation with tag T fails with an I/O error",
//   - takes a crash snapshot after the j-th durable mutation and refuses every
//     later operation (the process is dead from the store's point of view).
package physx

import (
	"context"
	"errors"
	"fmt"
	"sort"
	"strings"
	"sync"

	"github.com/openbao/openbao/sdk/v2/helper/verif/sched"
	"github.com/openbao/openbao/sdk/v2/physical"
)

var (
	ErrInjected = errors.New("physx: injected I/O error")
	ErrCrashed  = errors.New("physx: process crashed (store no longer reachable)")
)

type Op struct {
	Seq    int
	Thread string // managed thread name, "" for unmanaged goroutines
	Tag    string
	Kind   string // get put delete list listpage begintx beginrotx commit rollback
	Key    string
	InTx   bool
	Err    string
}

func (o Op) String() string {
	tx := ""
	if o.InTx {
		tx = "tx."
	}
	e := ""
	if o.Err != "" {
		e = " !" + o.Err
	}
	return fmt.Sprintf("%s%s(%s)%s", tx, o.Kind, o.Key, e)
}

type Backend struct {
	inner physical.Backend

	mu          sync.Mutex
	log         []Op
	tag         string
	tagCount    map[string]int
	failTag     string
	failAt      int // 1-based index among ops carrying failTag; 0 = off
	failKinds   map[string]bool
	failMore    map[int]bool // further 1-based indices (same tag) that fail as well
	failed      *Op
	failedAll   []Op
	mutations   int
	crashAfter  int // 0 = off
	crashed     bool
	crashSnap   map[string][]byte
	impure      int
	impureOps   []string
	LogReads    bool
	pointsOff   bool
	// PostPoints adds a scheduling point AFTER every operation returns (the
	// window between a read of the store and what the caller does with it).
	PostPoints bool
	// PutHook, when set, sees every value that reaches the wrapped store
	// (plain puts and puts inside transactions), before it is written.
	PutHook func(key string, value []byte)

	holdSub  string        // Get results for keys containing this are held back ...
	holdCh   chan struct{} // ... until this channel is closed
	held     int
}

// HoldGets makes every Get of a key containing sub wait AFTER the underlying read has
// returned (the caller has a value in hand that may go stale) until release is called.
// Used to pin one background reader (e.g. a lease-restore worker) at that point.
func (b *Backend) HoldGets(sub string) (release func()) {
	ch := make(chan struct{})
	b.mu.Lock()
	b.holdSub, b.holdCh = sub, ch
	b.mu.Unlock()
	var once sync.Once
	return func() {
		once.Do(func() {
			b.mu.Lock()
			b.holdSub, b.holdCh = "", nil
			b.mu.Unlock()
			close(ch)
		})
	}
}

// Held reports how many Gets are currently waiting in HoldGets.
func (b *Backend) Held() int {
	b.mu.Lock()
	defer b.mu.Unlock()
	return b.held
}

type TxBackend struct {
	*Backend
}

// New wraps inner.  The result implements physical.TransactionalBackend iff
// inner does.
func New(inner physical.Backend) physical.Backend {
	b := &Backend{inner: inner, tagCount: map[string]int{}, LogReads: true}
	if _, ok := inner.(physical.TransactionalBackend); ok {
		return &TxBackend{b}
	}
	return b
}

// Ctl returns the control surface of a backend created by New.
func Ctl(p physical.Backend) *Backend {
	switch b := p.(type) {
	case *Backend:
		return b
	case *TxBackend:
		return b.Backend
	}
	return nil
}

// SetTag labels all following operations (any goroutine) until changed.
func (b *Backend) SetTag(tag string) {
	b.mu.Lock()
	b.tag = tag
	b.mu.Unlock()
}

// FailAt arms a single fault: the k-th (1-based) operation carrying tag fails.
// kinds (optional) restricts which operation kinds count.
func (b *Backend) FailAt(tag string, k int, kinds ...string) {
	b.mu.Lock()
	b.failTag, b.failAt, b.failed = tag, k, nil
	b.failMore, b.failedAll = nil, nil
	b.tagCount[tag] = 0
	b.failKinds = nil
	if len(kinds) > 0 {
		b.failKinds = map[string]bool{}
		for _, x := range kinds {
			b.failKinds[x] = true
		}
	}
	b.mu.Unlock()
}

// FailAlso adds a further fault to the one armed by FailAt: the k-th operation
// carrying the same tag fails too (call after FailAt).
func (b *Backend) FailAlso(k int) {
	b.mu.Lock()
	if b.failMore == nil {
		b.failMore = map[int]bool{}
	}
	b.failMore[k] = true
	b.mu.Unlock()
}

// FailedAll returns every operation failed by the armed faults, in order.
func (b *Backend) FailedAll() []Op {
	b.mu.Lock()
	defer b.mu.Unlock()
	return append([]Op(nil), b.failedAll...)
}

// Failed returns the operation that was failed by the armed fault (nil if the
// run never reached it).
func (b *Backend) Failed() *Op {
	b.mu.Lock()
	defer b.mu.Unlock()
	return b.failed
}

// TagCount returns how many (counted) operations carried tag since FailAt /
// ResetCount.
func (b *Backend) TagCount(tag string) int {
	b.mu.Lock()
	defer b.mu.Unlock()
	return b.tagCount[tag]
}

func (b *Backend) ResetCount(tag string) {
	b.mu.Lock()
	b.tagCount[tag] = 0
	b.mu.Unlock()
}

// CrashAfter arms a crash: after the j-th durable mutation from now the store
// content is snapshotted and every later operation fails with ErrCrashed.
func (b *Backend) CrashAfter(j int) {
	b.mu.Lock()
	b.mutations, b.crashAfter, b.crashed, b.crashSnap = 0, j, false, nil
	b.mu.Unlock()
}

func (b *Backend) Mutations() int {
	b.mu.Lock()
	defer b.mu.Unlock()
	return b.mutations
}

func (b *Backend) ResetMutations() {
	b.mu.Lock()
	b.mutations = 0
	b.mu.Unlock()
}

// Crashed reports whether the armed crash happened and returns its snapshot.
func (b *Backend) Crashed() (bool, map[string][]byte) {
	b.mu.Lock()
	defer b.mu.Unlock()
	return b.crashed, b.crashSnap
}

func (b *Backend) Log() []Op {
	b.mu.Lock()
	defer b.mu.Unlock()
	return append([]Op{}, b.log...)
}

func (b *Backend) LogLen() int {
	b.mu.Lock()
	defer b.mu.Unlock()
	return len(b.log)
}

func (b *Backend) LogSince(n int) []Op {
	b.mu.Lock()
	defer b.mu.Unlock()
	if n > len(b.log) {
		n = len(b.log)
	}
	return append([]Op{}, b.log[n:]...)
}

// Impure is the number of operations issued by unmanaged goroutines while an
// exploration was active.
func (b *Backend) Impure() int {
	b.mu.Lock()
	defer b.mu.Unlock()
	return b.impure
}

func (b *Backend) ImpureOps() []string {
	b.mu.Lock()
	defer b.mu.Unlock()
	return append([]string{}, b.impureOps...)
}

// PointsOff disables scheduling points (setup phases inside an exploration).
func (b *Backend) PointsOff(off bool) {
	b.mu.Lock()
	b.pointsOff = off
	b.mu.Unlock()
}

// Snapshot dumps the raw content of the wrapped store (not logged).
func (b *Backend) Snapshot() map[string][]byte {
	out := map[string][]byte{}
	var walk func(p string)
	walk = func(p string) {
		ks, err := b.inner.List(context.Background(), p)
		if err != nil {
			return
		}
		for _, k := range ks {
			if strings.HasSuffix(k, "/") {
				walk(p + k)
				continue
			}
			e, err := b.inner.Get(context.Background(), p+k)
			if err == nil && e != nil {
				out[p+k] = append([]byte{}, e.Value...)
			}
		}
	}
	walk("")
	return out
}

// Keys returns the sorted raw keys with the given prefix.
func (b *Backend) Keys(prefix string) []string {
	var out []string
	for k := range b.Snapshot() {
		if strings.HasPrefix(k, prefix) {
			out = append(out, k)
		}
	}
	sort.Strings(out)
	return out
}

// Restore loads a snapshot into a fresh inner backend.
func Restore(inner physical.Backend, snap map[string][]byte) error {
	for k, v := range snap {
		if err := inner.Put(context.Background(), &physical.Entry{Key: k, Value: append([]byte{}, v...)}); err != nil {
			return err
		}
	}
	return nil
}

// before is called at the start of every operation.  It returns a non-nil
// error when the operation must not reach the wrapped store.
func (b *Backend) before(kind, key string, inTx bool) (int, error) {
	t := sched.Current()
	b.mu.Lock()
	off := b.pointsOff
	b.mu.Unlock()
	if t != nil && !off {
		sched.Point(kind + ":" + key)
	}
	b.mu.Lock()
	defer b.mu.Unlock()
	op := Op{Seq: len(b.log), Kind: kind, Key: key, InTx: inTx, Tag: b.tag}
	if t != nil {
		op.Thread = t.Name
		if op.Tag == "" {
			op.Tag = t.Name
		}
	} else if sched.Active() != nil {
		b.impure++
		if len(b.impureOps) < 64 {
			b.impureOps = append(b.impureOps, op.String())
		}
	}
	var err error
	if b.crashed {
		err = ErrCrashed
	} else if b.failKinds == nil || b.failKinds[kind] {
		b.tagCount[op.Tag]++
		if b.failAt > 0 && op.Tag == b.failTag && b.tagCount[op.Tag] == b.failAt {
			err = ErrInjected
			b.failAt = 0
		} else if op.Tag == b.failTag && b.failMore[b.tagCount[op.Tag]] {
			err = ErrInjected
			delete(b.failMore, b.tagCount[op.Tag])
		}
	}
	if err != nil {
		op.Err = err.Error()
		if err == ErrInjected {
			cp := op
			if b.failed == nil {
				b.failed = &cp
			}
			b.failedAll = append(b.failedAll, cp)
		}
	}
	b.log = append(b.log, op)
	return op.Seq, err
}

// after is called when an operation has returned from the wrapped store.
func (b *Backend) after(kind, key string) {
	if !b.PostPoints {
		return
	}
	if t := sched.Current(); t != nil {
		b.mu.Lock()
		off := b.pointsOff
		b.mu.Unlock()
		if !off {
			sched.Point("ret-" + kind + ":" + key)
		}
	}
}

// mutated is called after a successful durable mutation.
func (b *Backend) mutated() {
	b.mu.Lock()
	b.mutations++
	hit := b.crashAfter > 0 && b.mutations == b.crashAfter && !b.crashed
	b.mu.Unlock()
	if hit {
		snap := b.Snapshot()
		b.mu.Lock()
		b.crashed = true
		b.crashSnap = snap
		b.mu.Unlock()
	}
}

func (b *Backend) note(seq int, err error) {
	if err == nil {
		return
	}
	b.mu.Lock()
	if seq < len(b.log) && b.log[seq].Err == "" {
		b.log[seq].Err = err.Error()
	}
	b.mu.Unlock()
}

func (b *Backend) Put(ctx context.Context, e *physical.Entry) error {
	seq, err := b.before("put", e.Key, false)
	if err != nil {
		return err
	}
	if h := b.PutHook; h != nil {
		h(e.Key, append([]byte{}, e.Value...))
	}
	err = b.inner.Put(ctx, e)
	if err == nil {
		b.mutated()
	}
	b.note(seq, err)
	b.after("put", e.Key)
	return err
}

func (b *Backend) Get(ctx context.Context, key string) (*physical.Entry, error) {
	seq, err := b.before("get", key, false)
	if err != nil {
		return nil, err
	}
	e, err := b.inner.Get(ctx, key)
	b.note(seq, err)
	b.mu.Lock()
	ch := b.holdCh
	hold := ch != nil && b.holdSub != "" && strings.Contains(key, b.holdSub) && b.held == 0
	if hold {
		b.held++
	}
	b.mu.Unlock()
	if hold {
		<-ch
		b.mu.Lock()
		b.held--
		b.mu.Unlock()
	}
	b.after("get", key)
	return e, err
}

func (b *Backend) Delete(ctx context.Context, key string) error {
	seq, err := b.before("delete", key, false)
	if err != nil {
		return err
	}
	err = b.inner.Delete(ctx, key)
	if err == nil {
		b.mutated()
	}
	b.note(seq, err)
	b.after("delete", key)
	return err
}

func (b *Backend) List(ctx context.Context, prefix string) ([]string, error) {
	seq, err := b.before("list", prefix, false)
	if err != nil {
		return nil, err
	}
	out, err := b.inner.List(ctx, prefix)
	b.note(seq, err)
	return out, err
}

func (b *Backend) ListPage(ctx context.Context, prefix, after string, limit int) ([]string, error) {
	seq, err := b.before("listpage", prefix, false)
	if err != nil {
		return nil, err
	}
	out, err := b.inner.ListPage(ctx, prefix, after, limit)
	b.note(seq, err)
	return out, err
}

// ---- transactions ---------------------------------------------------------

type tx struct {
	b     *Backend
	inner physical.Transaction
	wrote bool
}

func (b *TxBackend) begin(ctx context.Context, ro bool) (physical.Transaction, error) {
	kind := "begintx"
	if ro {
		kind = "beginrotx"
	}
	seq, err := b.before(kind, "", false)
	if err != nil {
		return nil, err
	}
	var in physical.Transaction
	if ro {
		in, err = b.inner.(physical.TransactionalBackend).BeginReadOnlyTx(ctx)
	} else {
		in, err = b.inner.(physical.TransactionalBackend).BeginTx(ctx)
	}
	b.note(seq, err)
	if err != nil {
		return nil, err
	}
	return &tx{b: b.Backend, inner: in}, nil
}

func (b *TxBackend) BeginTx(ctx context.Context) (physical.Transaction, error) {
	return b.begin(ctx, false)
}

func (b *TxBackend) BeginReadOnlyTx(ctx context.Context) (physical.Transaction, error) {
	return b.begin(ctx, true)
}

func (t *tx) Put(ctx context.Context, e *physical.Entry) error {
	seq, err := t.b.before("put", e.Key, true)
	if err != nil {
		return err
	}
	if h := t.b.PutHook; h != nil {
		h(e.Key, append([]byte{}, e.Value...))
	}
	err = t.inner.Put(ctx, e)
	if err == nil {
		t.wrote = true
	}
	t.b.note(seq, err)
	return err
}

func (t *tx) Get(ctx context.Context, key string) (*physical.Entry, error) {
	seq, err := t.b.before("get", key, true)
	if err != nil {
		return nil, err
	}
	e, err := t.inner.Get(ctx, key)
	t.b.note(seq, err)
	t.b.after("txget", key)
	return e, err
}

func (t *tx) Delete(ctx context.Context, key string) error {
	seq, err := t.b.before("delete", key, true)
	if err != nil {
		return err
	}
	err = t.inner.Delete(ctx, key)
	if err == nil {
		t.wrote = true
	}
	t.b.note(seq, err)
	return err
}

func (t *tx) List(ctx context.Context, prefix string) ([]string, error) {
	seq, err := t.b.before("list", prefix, true)
	if err != nil {
		return nil, err
	}
	out, err := t.inner.List(ctx, prefix)
	t.b.note(seq, err)
	return out, err
}

func (t *tx) ListPage(ctx context.Context, prefix, after string, limit int) ([]string, error) {
	seq, err := t.b.before("listpage", prefix, true)
	if err != nil {
		return nil, err
	}
	out, err := t.inner.ListPage(ctx, prefix, after, limit)
	t.b.note(seq, err)
	return out, err
}

func (t *tx) Commit(ctx context.Context) error {
	seq, err := t.b.before("commit", "", true)
	if err != nil {
		// the underlying transaction must still be released
		_ = t.inner.Rollback(ctx)
		return err
	}
	err = t.inner.Commit(ctx)
	if err == nil && t.wrote {
		t.b.mutated()
	}
	t.b.note(seq, err)
	t.b.after("commit", "")
	return err
}

func (t *tx) Rollback(ctx context.Context) error {
	// Rollback never fails by injection: it is the cleanup path, and a
	// failing rollback would only leak the inner transaction's permit.
	t.b.mu.Lock()
	t.b.log = append(t.b.log, Op{Seq: len(t.b.log), Kind: "rollback", InTx: true, Tag: t.b.tag})
	t.b.mu.Unlock()
	return t.inner.Rollback(ctx)
}
