// Package kvc is the shared explicit-state checker for the key/value and
// listing contract (property C13).  A "stack" is any real storage backend or
// wrapping layer adapted to the tiny KV interface below.  The checker runs a
// breadth-first search over operation histories; every successor is computed
// by replaying the history on a FRESH real instance plus one more operation,
// states are deduplicated by a canonical key (sorted reference content plus the
// per-key last-operation kind, which over-approximates any hidden per-key state
// such as a read cache), and in every visited transition the full read battery
// is compared with a sorted-map reference.
package kvc

import (
	"fmt"
	"sort"
	"strings"

	"github.com/openbao/openbao/sdk/v2/helper/verif/vout"
)

// KV is what a stack must offer.  found=false means "no entry".
type KV interface {
	Put(key string, val []byte) error
	Get(key string) (val []byte, found bool, err error)
	Delete(key string) error
	List(prefix string) ([]string, error)
	ListPage(prefix, after string, limit int) ([]string, error)
}

// Stack describes one layer combination under test.
type Stack struct {
	Name string
	// New returns a fresh, empty instance and a cleanup function.
	New func() (KV, func(), error)
	// KeyOK restricts the key universe for this stack (stated domain).
	KeyOK func(key string) bool
	// PrefixOK / AfterOK restrict list arguments (stated domain).
	PrefixOK func(prefix string) bool
	AfterOK  func(prefix, after string) bool
	// ReadOps adds get(k) to the move alphabet (layers with read-dependent
	// hidden state, i.e. the cache).
	ReadOps bool
	// CancelOps adds putx(k): a Put issued with a request context that is already
	// cancelled.  Either it takes effect (nil error) or it fails and changes nothing
	// that a later read can see.  The instance must implement CancelPutter.
	CancelOps bool
	// Extra is an optional additional per-state check (e.g. "parent store
	// outside the view is untouched", scan/clear helpers).  It receives the
	// reference content.
	Extra func(kv KV, ref map[string]string) error
}

// CancelPutter: Put with a context that is already cancelled.
type CancelPutter interface {
	PutCancelled(k string, v []byte) error
}

type Op struct {
	Kind string `json:"op"` // put | delete | get
	Key  string `json:"key"`
	Val  string `json:"val,omitempty"`
}

func (o Op) String() string {
	if o.Kind == "put" || o.Kind == "putx" {
		return fmt.Sprintf("%s(%q,%s)", o.Kind, short(o.Key), o.Val)
	}
	return fmt.Sprintf("%s(%q)", o.Kind, short(o.Key))
}

func short(k string) string {
	if len(k) > 24 {
		return k[:8] + fmt.Sprintf("…(%d)", len(k))
	}
	return k
}

// Universe returns the key universe, list prefixes, after values and limits.
func Universe(thorough bool) (keys, prefixes, afters []string, limits []int) {
	long := "z/" + strings.Repeat("k", 253)
	// "a/b/" is a key that ends in a slash: it equals one of the listed prefixes, so the
	// listing of that prefix has the empty string as a child
	keys = []string{"a", "ab", "a/b", "a/b/c", "a/c", "d/x.temp", "é/ā€日", "a/b/"}
	// (the non-ASCII key holds UTF-8 continuation bytes in 0x80-0x9f as well as above: a byte-wise
	// printable check would refuse it, a rune-wise one accepts it)
	if thorough {
		keys = append(keys, long, "a-b")
	}
	prefixes = []string{"", "a/", "a/b/", "d/", "é/", "zz/", "z/"}
	afters = []string{"", "a", "a/", "aa", "b", "c", "zzz", ".", "..", "./b", "x/y", "a/b", "ā€日"}
	limits = []int{-1, 0, 1, 2, 100}
	return keys, prefixes, afters, limits
}

// ---- reference model ---------------------------------------------------

// RefList is the documented listing: immediate children of prefix, sub-prefixes
// marked with a trailing slash, sorted, unique.
func RefList(ref map[string]string, prefix string) []string {
	seen := map[string]struct{}{}
	for k := range ref {
		if !strings.HasPrefix(k, prefix) {
			continue
		}
		rem := k[len(prefix):]
		if i := strings.Index(rem, "/"); i >= 0 {
			rem = rem[:i+1]
		}
		seen[rem] = struct{}{}
	}
	out := make([]string, 0, len(seen))
	for k := range seen {
		out = append(out, k)
	}
	sort.Strings(out)
	return out
}

// RefListPage is the slice of the sorted full listing strictly after `after`,
// at most `limit` entries when limit > 0.
func RefListPage(ref map[string]string, prefix, after string, limit int) []string {
	full := RefList(ref, prefix)
	out := []string{}
	for _, k := range full {
		if after != "" && k <= after {
			continue
		}
		if limit > 0 && len(out) >= limit {
			break
		}
		out = append(out, k)
	}
	return out
}

func eqStrings(a, b []string) bool {
	if len(a) != len(b) {
		return false
	}
	for i := range a {
		if a[i] != b[i] {
			return false
		}
	}
	return true
}

// ---- checker -------------------------------------------------------------

type Replay struct {
	Stack string `json:"stack"`
	Hist  []Op   `json:"hist"`
}

type state struct {
	hist []Op
}

// apply replays hist on a fresh instance, comparing every op result with the
// reference, and returns instance, reference and per-key last-op map.
func apply(st *Stack, hist []Op) (KV, func(), map[string]string, map[string]string, error) {
	kv, cleanup, err := st.New()
	if err != nil {
		return nil, nil, nil, nil, fmt.Errorf("harness: cannot build stack %s: %v", st.Name, err)
	}
	ref := map[string]string{}
	last := map[string]string{}
	for i, op := range hist {
		switch op.Kind {
		case "put":
			if err := kv.Put(op.Key, []byte(op.Val)); err != nil {
				return kv, cleanup, ref, last, fmt.Errorf("step %d %s: unexpected error %v", i, op, err)
			}
			ref[op.Key] = op.Val
		case "putx":
			cp, ok := kv.(CancelPutter)
			if !ok {
				return kv, cleanup, ref, last, fmt.Errorf("harness: stack %s has no PutCancelled", st.Name)
			}
			if err := cp.PutCancelled(op.Key, []byte(op.Val)); err == nil {
				ref[op.Key] = op.Val
			}
		case "delete":
			if err := kv.Delete(op.Key); err != nil {
				return kv, cleanup, ref, last, fmt.Errorf("step %d %s: unexpected error %v", i, op, err)
			}
			delete(ref, op.Key)
		case "get":
			v, found, err := kv.Get(op.Key)
			if err != nil {
				return kv, cleanup, ref, last, fmt.Errorf("step %d %s: unexpected error %v", i, op, err)
			}
			want, ok := ref[op.Key]
			if found != ok || (ok && string(v) != want) {
				return kv, cleanup, ref, last, fmt.Errorf("step %d %s: got (%q,%v) want (%q,%v)", i, op, v, found, want, ok)
			}
		}
		last[op.Key] = op.Kind
	}
	return kv, cleanup, ref, last, nil
}

func canon(ref, last map[string]string, withLast bool) string {
	ks := make([]string, 0, len(ref)+len(last))
	for k, v := range ref {
		ks = append(ks, "c:"+k+"="+v)
	}
	if withLast {
		for k, v := range last {
			ks = append(ks, "l:"+k+"="+v)
		}
	}
	sort.Strings(ks)
	return strings.Join(ks, "\x00")
}

// battery compares every read with the reference; returns first mismatch.
func battery(st *Stack, kv KV, ref map[string]string, keys, prefixes, afters []string, limits []int, res *vout.Result) error {
	n := int64(0)
	defer func() { res.Add("reads_compared", n) }()
	for _, k := range keys {
		v, found, err := kv.Get(k)
		n++
		if err != nil {
			return fmt.Errorf("get(%q): unexpected error %v", short(k), err)
		}
		want, ok := ref[k]
		if found != ok || (ok && string(v) != want) {
			return fmt.Errorf("get(%q) = (%q,%v), reference (%q,%v)", short(k), v, found, want, ok)
		}
	}
	for _, p := range prefixes {
		if st.PrefixOK != nil && !st.PrefixOK(p) {
			continue
		}
		got, err := kv.List(p)
		n++
		if err != nil {
			return fmt.Errorf("list(%q): unexpected error %v", p, err)
		}
		want := RefList(ref, p)
		g := append([]string{}, got...)
		sort.Strings(g)
		if !eqStrings(g, want) {
			return fmt.Errorf("list(%q) = %q, reference %q", p, got, want)
		}
		for _, a := range afters {
			if st.AfterOK != nil && !st.AfterOK(p, a) {
				continue
			}
			for _, l := range limits {
				got, err := kv.ListPage(p, a, l)
				n++
				if err != nil {
					return fmt.Errorf("listpage(%q,after=%q,limit=%d): unexpected error %v", p, a, l, err)
				}
				want := RefListPage(ref, p, a, l)
				if !eqStrings(got, want) {
					return fmt.Errorf("listpage(%q,after=%q,limit=%d) = %q, reference %q", p, a, l, got, want)
				}
			}
		}
	}
	return nil
}

// sigOf makes a stable signature from a mismatch description: the stack, the
// operation kind and (for listpage) the after/limit class.
func sigOf(stack string, err error) string {
	s := err.Error()
	kind := s
	if i := strings.Index(s, "("); i > 0 {
		kind = s[:i]
	}
	if j := strings.LastIndex(kind, " "); j >= 0 {
		kind = kind[j+1:]
	}
	extra := ""
	if strings.Contains(s, "listpage(") {
		if i := strings.Index(s, "after="); i >= 0 {
			e := s[i:]
			if j := strings.Index(e, ","); j > 0 {
				extra = ":" + e[:j]
			}
		}
	}
	if strings.Contains(s, "unexpected error") {
		extra += ":error"
	}
	return stack + ":" + kind + extra
}

// Run explores one stack.  depth is the history length bound.
func Run(res *vout.Result, st *Stack, depth int) {
	thorough := vout.Thorough()
	keysAll, prefixes, afters, limits := Universe(thorough)
	var keys []string
	for _, k := range keysAll {
		if st.KeyOK == nil || st.KeyOK(k) {
			keys = append(keys, k)
		}
	}
	var alphabet []Op
	for _, k := range keys {
		alphabet = append(alphabet, Op{"put", k, "1"})
	}
	for _, k := range keys {
		alphabet = append(alphabet, Op{"delete", k, ""})
	}
	for _, k := range keys {
		alphabet = append(alphabet, Op{"put", k, ""}) // empty value: present, not absent
	}
	if st.ReadOps {
		for _, k := range keys {
			alphabet = append(alphabet, Op{"get", k, ""})
		}
	}
	if st.CancelOps {
		for i, k := range keys {
			if i < 2 {
				alphabet = append(alphabet, Op{"putx", k, "9"})
			}
		}
	}
	res.Bound(st.Name+".keys", len(keys))
	res.Bound(st.Name+".alphabet", len(alphabet))
	res.Bound(st.Name+".depth", depth)

	if vout.ReplayPath() != "" {
		var rp Replay
		if _, err := vout.LoadReplay(&rp); err != nil {
			res.Note("cannot load replay: %v", err)
			return
		}
		if rp.Stack != st.Name {
			return
		}
		if err := checkOne(st, rp.Hist, keys, prefixes, afters, limits, res); err != nil {
			res.Violate(sigOf(st.Name, err), fmt.Sprintf("stack %s after %v: %v", st.Name, rp.Hist, err), rp)
		}
		return
	}

	seen := map[string]struct{}{}
	frontier := []state{{hist: nil}}
	// initial state
	if err := checkOne(st, nil, keys, prefixes, afters, limits, res); err != nil {
		res.Violate(sigOf(st.Name, err), fmt.Sprintf("stack %s initial state: %v", st.Name, err), Replay{st.Name, nil})
	}
	seen[canon(map[string]string{}, map[string]string{}, st.ReadOps)] = struct{}{}
	res.Add("states", 1)
	res.Distinct("nontrivial", st.Name+"|init")
	for d := 0; d < depth && len(frontier) > 0; d++ {
		var next []state
		for _, s := range frontier {
			for _, op := range alphabet {
				h := append(append([]Op{}, s.hist...), op)
				ref, last, err := checkOneRef(st, h, keys, prefixes, afters, limits, res)
				res.Add("transitions", 1)
				res.Add("executions", 1)
				if err != nil {
					if strings.HasPrefix(err.Error(), "harness:") {
						res.Note("%v", err)
						res.NotExhaustive("harness could not build " + st.Name)
						return
					}
					res.Violate(sigOf(st.Name, err), fmt.Sprintf("stack %s after %v: %v", st.Name, h, err), Replay{st.Name, h})
					continue // do not expand beyond a violating state
				}
				c := canon(ref, last, st.ReadOps)
				if _, ok := seen[c]; ok {
					continue
				}
				seen[c] = struct{}{}
				res.Add("states", 1)
				res.Distinct("nontrivial", st.Name+"|"+c)
				if len(h) <= 2 || len(seen)%97 == 0 {
					res.Sample(map[string]interface{}{"stack": st.Name, "history": fmt.Sprint(h), "content_keys": len(ref)})
				}
				next = append(next, state{hist: h})
			}
		}
		frontier = next
		res.Max("depth", int64(d+1))
	}
}

func checkOne(st *Stack, hist []Op, keys, prefixes, afters []string, limits []int, res *vout.Result) error {
	_, _, err := checkOneRef(st, hist, keys, prefixes, afters, limits, res)
	return err
}

func checkOneRef(st *Stack, hist []Op, keys, prefixes, afters []string, limits []int, res *vout.Result) (ref, last map[string]string, err error) {
	defer func() {
		if r := recover(); r != nil {
			err = fmt.Errorf("panic(%v)", r)
		}
	}()
	kv, cleanup, ref, last, err := apply(st, hist)
	if cleanup != nil {
		defer cleanup()
	}
	if err != nil {
		return ref, last, err
	}
	if err := battery(st, kv, ref, keys, prefixes, afters, limits, res); err != nil {
		return ref, last, err
	}
	if st.Extra != nil {
		if err := st.Extra(kv, ref); err != nil {
			return ref, last, err
		}
		// Extra may run destructive helpers (clear); nothing is reused afterwards.
	}
	return ref, last, nil
}
