// Package vsync is a drop-in replacement for the parts of package sync that
// OpenBao's own code uses.  Through the build overlay every `import "sync"` in
// /repo/internal and /repo/sdk is rewritten to this package, so that mutex
// operations of *managed* goroutines become visible to the cooperative
// scheduler (engine/sched): a Lock that cannot be taken immediately parks the
// thread instead of blocking the whole exploration.  For goroutines that are
// not managed, or when no exploration is active, every type behaves exactly
// like its sync counterpart (plain delegation).
package vsync

import (
	"sync"

	"github.com/openbao/openbao/sdk/v2/helper/verif/sched"
)

type (
	WaitGroup = sync.WaitGroup
	Once      = sync.Once
	Map       = sync.Map
	Pool      = sync.Pool
	Cond      = sync.Cond
	Locker    = sync.Locker
)

func NewCond(l Locker) *Cond { return sync.NewCond(l) }

func OnceFunc(f func()) func()                               { return sync.OnceFunc(f) }
func OnceValue[T any](f func() T) func() T                   { return sync.OnceValue(f) }
func OnceValues[T1, T2 any](f func() (T1, T2)) func() (T1, T2) { return sync.OnceValues(f) }

type Mutex struct {
	mu sync.Mutex
}

func (m *Mutex) Lock() {
	if t := sched.Current(); t != nil {
		t.FinePoint("lock")
		for !m.mu.TryLock() {
			t.BlockOn(m, "blocked:lock")
		}
		return
	}
	m.mu.Lock()
}

func (m *Mutex) TryLock() bool { return m.mu.TryLock() }

func (m *Mutex) Unlock() {
	m.mu.Unlock()
	if sched.Active() != nil {
		sched.NotifyUnlock(m)
	}
}

type RWMutex struct {
	mu sync.RWMutex
}

func (m *RWMutex) Lock() {
	if t := sched.Current(); t != nil {
		t.FinePoint("lock")
		for !m.mu.TryLock() {
			t.BlockOn(m, "blocked:lock")
		}
		return
	}
	m.mu.Lock()
}

func (m *RWMutex) RLock() {
	if t := sched.Current(); t != nil {
		t.FinePoint("rlock")
		for !m.mu.TryRLock() {
			t.BlockOn(m, "blocked:rlock")
		}
		return
	}
	m.mu.RLock()
}

func (m *RWMutex) TryLock() bool  { return m.mu.TryLock() }
func (m *RWMutex) TryRLock() bool { return m.mu.TryRLock() }

func (m *RWMutex) Unlock() {
	m.mu.Unlock()
	if sched.Active() != nil {
		sched.NotifyUnlock(m)
	}
}

func (m *RWMutex) RUnlock() {
	m.mu.RUnlock()
	if sched.Active() != nil {
		sched.NotifyUnlock(m)
	}
}

type rlocker RWMutex

func (r *rlocker) Lock()   { (*RWMutex)(r).RLock() }
func (r *rlocker) Unlock() { (*RWMutex)(r).RUnlock() }

func (m *RWMutex) RLocker() Locker { return (*rlocker)(m) }
