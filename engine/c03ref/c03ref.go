// Package c03ref is the reference model of the documented OpenBao ACL policy
// semantics (website/content/docs/concepts/policies.mdx) used by the C03
// harnesses.  It shares no code and no data structure with internal/vault/policy:
// patterns are turned into anchored regular expressions, stanzas naming the same
// pattern are merged as a set, and the deciding pattern is the maximum of the
// documented five-rule priority order.  Standard library only.
//
// Readings taken where the documentation is silent are listed in the header of
// inject/internal/verifh/c03acl/c03acl_test.go (R1..R7).
package c03ref

import (
	"fmt"
	"regexp"
	"sort"
	"strconv"
	"strings"
)

// ---------------------------------------------------------------- capabilities

const (
	Deny uint16 = 1 << iota
	Sudo
	Read
	List
	Update
	Create
	Delete
	Patch
	Scan
)

var CapNames = []string{"deny", "sudo", "read", "list", "update", "create", "delete", "patch", "scan"}

func CapList(c uint16) []string {
	var out []string
	for i, n := range CapNames {
		if c&(1<<uint(i)) != 0 {
			out = append(out, n)
		}
	}
	return out
}

func NamesToRef(l []string) uint16 {
	var out uint16
	for _, s := range l {
		found := false
		for i, n := range CapNames {
			if n == s {
				out |= 1 << uint(i)
				found = true
			}
		}
		if !found {
			out |= 1 << 15
		}
	}
	return out
}

type OpInfo struct {
	Op       string
	Need     uint16
	ListLike bool
	ParamOp  bool
}

// the documented capability <-> operation table (+ R5)
var AllOps = []OpInfo{
	{"read", Read, false, true},
	{"list", List, true, false},
	{"update", Update, false, true},
	{"delete", Delete, false, false},
	{"create", Create, false, true},
	{"patch", Patch, false, true},
	{"scan", Scan, true, false},
	{"revoke", Update, false, false},
	{"renew", Update, false, false},
	{"rollback", Update, false, false},
}

func OpsNamed(names ...string) []OpInfo {
	var out []OpInfo
	for _, n := range names {
		for _, o := range AllOps {
			if o.Op == n {
				out = append(out, o)
			}
		}
	}
	return out
}

// ---------------------------------------------------------------- policy text

// Stanza is one `path "..." { ... }` block as written.
type Stanza struct {
	Pat      string              `json:"pat"`
	Caps     uint16              `json:"caps"`
	Allowed  map[string][]string `json:"allowed,omitempty"` // nil = not written
	Denied   map[string][]string `json:"denied,omitempty"`
	Required []string            `json:"required,omitempty"`
	Limit    int                 `json:"limit,omitempty"`
	MinW     int                 `json:"minw,omitempty"` // seconds
	MaxW     int                 `json:"maxw,omitempty"`
	Filter   string              `json:"filter,omitempty"` // list_scan_response_keys_filter_path
}

// Pol is one named policy living in namespace NS ("" = root, else "n/").
type Pol struct {
	NS    string   `json:"ns,omitempty"`
	Rules []Stanza `json:"rules"`
}

func quoteList(l []string) string {
	q := make([]string, len(l))
	for i, s := range l {
		q[i] = strconv.Quote(s)
	}
	return "[" + strings.Join(q, ", ") + "]"
}

func paramBlock(name string, m map[string][]string) string {
	keys := make([]string, 0, len(m))
	for k := range m {
		keys = append(keys, k)
	}
	sort.Strings(keys)
	var b strings.Builder
	b.WriteString("  " + name + " = {\n")
	for _, k := range keys {
		b.WriteString("    " + strconv.Quote(k) + " = " + quoteList(m[k]) + "\n")
	}
	b.WriteString("  }\n")
	return b.String()
}

func (p Pol) HCL(name string) string {
	var b strings.Builder
	b.WriteString("name = " + strconv.Quote(name) + "\n")
	for _, s := range p.Rules {
		b.WriteString("path " + strconv.Quote(s.Pat) + " {\n")
		b.WriteString("  capabilities = " + quoteList(CapList(s.Caps)) + "\n")
		if s.Allowed != nil {
			b.WriteString(paramBlock("allowed_parameters", s.Allowed))
		}
		if s.Denied != nil {
			b.WriteString(paramBlock("denied_parameters", s.Denied))
		}
		if len(s.Required) > 0 {
			b.WriteString("  required_parameters = " + quoteList(s.Required) + "\n")
		}
		if s.Limit != 0 {
			b.WriteString("  pagination_limit = " + strconv.Itoa(s.Limit) + "\n")
		}
		if s.MinW != 0 {
			b.WriteString("  min_wrapping_ttl = \"" + strconv.Itoa(s.MinW) + "s\"\n")
		}
		if s.MaxW != 0 {
			b.WriteString("  max_wrapping_ttl = \"" + strconv.Itoa(s.MaxW) + "s\"\n")
		}
		if s.Filter != "" {
			b.WriteString("  list_scan_response_keys_filter_path = " + strconv.Quote(s.Filter) + "\n")
		}
		b.WriteString("}\n")
	}
	return b.String()
}

// ---------------------------------------------------------------- reference

// Eff is the effective rule of one pattern (all stanzas naming it, merged as a
// set: every operation below is commutative and associative).
type Eff struct {
	Pat      string
	Deny     bool
	Caps     uint16
	Allowed  map[string][]string // nil/empty = unrestricted
	Denied   map[string][]string
	Required map[string]bool
	Limit    int
	MinW     int
	MaxW     int
	// Filters: every distinct list_scan_response_keys_filter_path written for
	// the pattern. With more than one the effective one depends on the
	// attachment order (first wins, by design), so callers only rely on it
	// when there is exactly one.
	Filters []string
}

type ACL struct {
	Exact    map[string]*Eff
	Nonexact []*Eff
}

func IsExact(p string) bool {
	if strings.HasSuffix(p, "*") {
		return false
	}
	for _, s := range strings.Split(p, "/") {
		if s == "+" {
			return false
		}
	}
	return true
}

func mergeParam(dst map[string][]string, src map[string][]string) map[string][]string {
	if len(src) == 0 {
		return dst
	}
	if dst == nil {
		dst = map[string][]string{}
	}
	for k, vals := range src {
		old, seen := dst[k]
		switch {
		case len(vals) == 0 || (seen && len(old) == 0):
			dst[k] = []string{}
		default:
			dst[k] = append(append([]string{}, old...), vals...)
		}
	}
	return dst
}

func minSet(a, b int) int {
	switch {
	case b <= 0:
		return a
	case a <= 0 || b < a:
		return b
	}
	return a
}

func Build(pols []Pol) *ACL {
	r := &ACL{Exact: map[string]*Eff{}}
	byPat := map[string]*Eff{}
	var order []string
	for _, p := range pols {
		for _, s := range p.Rules {
			abs := p.NS + strings.TrimPrefix(s.Pat, "/")
			e := byPat[abs]
			if e == nil {
				e = &Eff{Pat: abs, Required: map[string]bool{}}
				byPat[abs] = e
				order = append(order, abs)
			}
			if s.Caps&Deny != 0 {
				e.Deny = true
			}
			e.Caps |= s.Caps
			if s.Caps&Deny != 0 {
				// a denying stanza carries nothing else (doc: deny disallows
				// access regardless of anything else in the stanza)
				continue
			}
			e.Allowed = mergeParam(e.Allowed, s.Allowed)
			e.Denied = mergeParam(e.Denied, s.Denied)
			for _, k := range s.Required {
				e.Required[k] = true
			}
			e.Limit = minSet(e.Limit, s.Limit)
			e.MinW = minSet(e.MinW, s.MinW)
			e.MaxW = minSet(e.MaxW, s.MaxW)
			if s.Filter != "" {
				dup := false
				for _, f := range e.Filters {
					dup = dup || f == s.Filter
				}
				if !dup {
					e.Filters = append(e.Filters, s.Filter)
				}
			}
		}
	}
	for _, abs := range order {
		e := byPat[abs]
		if e.Deny {
			e.Caps = Deny
		}
		if IsExact(abs) {
			r.Exact[abs] = e
		} else {
			r.Nonexact = append(r.Nonexact, e)
		}
	}
	return r
}

// memo tables: not safe for concurrent use (each harness shard is one goroutine)
var reMemo = map[string]*regexp.Regexp{}
var matchMemo = map[string]map[string]bool{}

func patRegexp(p string) *regexp.Regexp {
	if re, ok := reMemo[p]; ok {
		return re
	}
	glob := strings.HasSuffix(p, "*")
	q := p
	if glob {
		q = p[:len(p)-1]
	}
	segs := strings.Split(q, "/")
	for i, s := range segs {
		if s == "+" {
			segs[i] = "[^/]*"
		} else {
			segs[i] = regexp.QuoteMeta(s)
		}
	}
	src := "^" + strings.Join(segs, "/")
	if glob {
		src += ".*"
	}
	src += "$"
	re := regexp.MustCompile(src)
	reMemo[p] = re
	return re
}

func Matches(p, path string) bool {
	m := matchMemo[p]
	if m == nil {
		m = map[string]bool{}
		matchMemo[p] = m
	}
	v, ok := m[path]
	if !ok {
		v = patRegexp(p).MatchString(path)
		m[path] = v
	}
	return v
}

func plusCount(p string) int {
	n := 0
	for _, s := range strings.Split(strings.TrimSuffix(p, "*"), "/") {
		if s == "+" {
			n++
		}
	}
	return n
}

// lower reports whether p1 has lower priority than p2 and which documented
// rule (1..5) said so.
func Lower(p1, p2 string) (bool, int) {
	f1, f2 := strings.IndexAny(p1, "+*"), strings.IndexAny(p2, "+*")
	if f1 != f2 {
		return f1 < f2, 1
	}
	g1, g2 := strings.HasSuffix(p1, "*"), strings.HasSuffix(p2, "*")
	if g1 != g2 {
		return g1, 2
	}
	w1, w2 := plusCount(p1), plusCount(p2)
	if w1 != w2 {
		return w1 > w2, 3
	}
	if len(p1) != len(p2) {
		return len(p1) < len(p2), 4
	}
	return p1 < p2, 5
}

// decide returns the effective rule for an absolute path, how it was found,
// how many non-exact candidates competed and the highest tie-break rule that
// was needed to separate the winner from a competitor.
func (r *ACL) Decide(path string, listLike bool) (e *Eff, how string, cands int, rule int) {
	forms := []string{path}
	if listLike && strings.HasSuffix(path, "/") {
		forms = append(forms, strings.TrimSuffix(path, "/"))
	}
	for i, f := range forms {
		if x, ok := r.Exact[f]; ok {
			if i == 0 {
				return x, "exact", 0, 0
			}
			return x, "exact-noslash", 0, 0
		}
	}
	for i, f := range forms {
		var best *Eff
		n := 0
		for _, x := range r.Nonexact {
			if !Matches(x.Pat, f) {
				continue
			}
			n++
			if best == nil {
				best = x
				continue
			}
			if lo, _ := Lower(best.Pat, x.Pat); lo {
				best = x
			}
		}
		if best != nil {
			maxRule := 0
			for _, x := range r.Nonexact {
				if x == best || !Matches(x.Pat, f) {
					continue
				}
				lo, ru := Lower(x.Pat, best.Pat)
				if !lo {
					panic("reference: priority order is not total: " + x.Pat + " vs " + best.Pat)
				}
				if ru > maxRule {
					maxRule = ru
				}
			}
			if i == 0 {
				return best, "nonexact", n, maxRule
			}
			return best, "nonexact-noslash", n, maxRule
		}
	}
	return nil, "default-deny", 0, 0
}

func globValue(item, val string) bool {
	star1 := len(item) >= 2 && item[0] == '*'
	star2 := len(item) >= 2 && item[len(item)-1] == '*'
	switch {
	case star1 && star2:
		return strings.Contains(val, item[1:len(item)-1])
	case star1:
		return strings.HasSuffix(val, item[1:])
	case star2:
		return strings.HasPrefix(val, item[:len(item)-1])
	}
	return item == val
}

func inValues(v interface{}, list []string) bool {
	s, ok := v.(string)
	if !ok {
		return false
	}
	for _, it := range list {
		if globValue(it, s) {
			return true
		}
	}
	return false
}

// permits: the reference verdict and, for list/scan, the value "limit" must
// have afterwards (present=false: must be absent).
func (e *Eff) Permits(o OpInfo, data map[string]interface{}, wrap int) (ok bool, why string, limitAfter string, present bool) {
	if v, has := data["limit"]; has {
		limitAfter, present = fmt.Sprint(v), true
	}
	if e == nil {
		return false, "default-deny", limitAfter, present
	}
	if e.Deny {
		return false, "deny", limitAfter, present
	}
	if e.Caps&o.Need == 0 {
		return false, "capability-missing", limitAfter, present
	}
	if e.MaxW > 0 && (wrap < 0 || wrap > e.MaxW) {
		return false, "wrap-over-max", limitAfter, present
	}
	if e.MinW > 0 && (wrap < 0 || wrap < e.MinW) {
		return false, "wrap-under-min", limitAfter, present
	}
	if e.MinW > 0 && e.MaxW > 0 && e.MaxW < e.MinW {
		return false, "wrap-window-empty", limitAfter, present
	}
	if o.ParamOp {
		for k := range e.Required {
			if _, has := data[k]; !has {
				return false, "required-missing", limitAfter, present
			}
		}
		if len(data) == 0 {
			return true, "ok-no-data", limitAfter, present
		}
		if len(e.Denied) > 0 {
			if _, star := e.Denied["*"]; star {
				return false, "denied-star", limitAfter, present
			}
			for k, v := range data {
				if list, has := e.Denied[k]; has && (len(list) == 0 || inValues(v, list)) {
					return false, "denied-value", limitAfter, present
				}
			}
		}
		if len(e.Allowed) == 0 {
			return true, "ok-unrestricted", limitAfter, present
		}
		_, star := e.Allowed["*"]
		for k, v := range data {
			list, has := e.Allowed[k]
			if !has {
				if !star {
					return false, "not-in-allowed", limitAfter, present
				}
				continue
			}
			if len(list) > 0 && !inValues(v, list) {
				return false, "allowed-value-mismatch", limitAfter, present
			}
		}
		return true, "ok-allowed", limitAfter, present
	}
	if o.ListLike {
		raw, has := data["limit"]
		if e.Limit > 0 {
			L := strconv.Itoa(e.Limit)
			if !has {
				if e.Required["limit"] {
					return false, "limit-required", limitAfter, present
				}
				return true, "limit-injected", L, true
			}
			var n int
			var perr error
			switch t := raw.(type) {
			case string:
				n, perr = strconv.Atoi(t)
			case int:
				n = t
			default:
				perr = fmt.Errorf("unsupported")
			}
			if perr != nil {
				if s, isStr := raw.(string); isStr && s == "max" {
					return true, "limit-max", L, true
				}
				return false, "limit-unparsable", limitAfter, present
			}
			switch {
			case n > e.Limit:
				return false, "limit-exceeded", limitAfter, present
			case n < 0:
				return false, "limit-negative", limitAfter, present
			case n == 0:
				return true, "limit-zero", L, true
			}
			return true, "limit-within", limitAfter, present
		}
		if s, isStr := raw.(string); has && isStr && s == "max" {
			return true, "max-unlimited", "0", true
		}
		return true, "ok-list", limitAfter, present
	}
	return true, "ok", limitAfter, present
}
