package sched

// Deterministic randomness (owned nondeterminism).  Token ids, accessors and
// lease ids are random; their salted forms decide the ORDER of storage
// listings and therefore the control flow of tree walks.  InstallDetRand
// replaces crypto/rand.Reader (the variable every user of crypto/rand,
// go-uuid and base62 reads from) by a seeded ChaCha8 stream:
//   - a managed thread draws from its own stream, derived from the seed and
//     the thread name, so ids do not depend on the interleaving;
//   - every other goroutine draws from one global stream that the harness
//     resets before each execution (ResetDetRand).
// The harness uses fixed seeds only; this is for reproducibility, never for
// sampling.

import (
	crand "crypto/rand"
	"hash/fnv"
	mrand "math/rand/v2"
	"sync"
)

type detReader struct{}

var (
	detMu     sync.Mutex
	detSeed   uint64
	detGlobal *mrand.ChaCha8
	detOn     bool
)

func seedFor(seed uint64, name string) [32]byte {
	h := fnv.New64a()
	h.Write([]byte(name))
	x := h.Sum64() ^ seed
	var s [32]byte
	for i := 0; i < 32; i++ {
		s[i] = byte(x >> (8 * (uint(i) % 8)))
		if i%8 == 7 {
			x = x*6364136223846793005 + 1442695040888963407
		}
	}
	return s
}

// InstallDetRand installs the deterministic reader (idempotent).
func InstallDetRand(seed uint64) {
	detMu.Lock()
	defer detMu.Unlock()
	if detOn && detSeed == seed {
		return // idempotent: the stream is only rewound by ResetDetRand
	}
	detSeed = seed
	detGlobal = mrand.NewChaCha8(seedFor(seed, "global"))
	if !detOn {
		crand.Reader = detReader{}
		detOn = true
	}
}

// ResetDetRand rewinds the global stream (call before building each execution).
func ResetDetRand() {
	detMu.Lock()
	defer detMu.Unlock()
	if detOn {
		detGlobal = mrand.NewChaCha8(seedFor(detSeed, "global"))
	}
}

func (detReader) Read(p []byte) (int, error) {
	if t := Current(); t != nil {
		if t.rng == nil {
			detMu.Lock()
			seed := detSeed
			detMu.Unlock()
			t.rng = mrand.NewChaCha8(seedFor(seed, "thread:"+t.Name))
		}
		return t.rng.Read(p)
	}
	detMu.Lock()
	defer detMu.Unlock()
	return detGlobal.Read(p)
}
