// Package sched is a cooperative scheduler for exhaustive, deterministic
// exploration of thread interleavings of the REAL code (engine E1).
//
// A harness registers 2-4 managed goroutines ("threads", one per API request).
// Exactly one managed thread runs at a time; it runs until its next scheduling
// point and parks.  Scheduling points are produced by
//   - the instrumented physical backend (every storage operation), and
//   - the vsync shim (a Lock/RLock that cannot be taken immediately blocks the
//     thread until that mutex is unlocked; in fine mode every lock acquisition
//     of a managed thread is a point as well).
// Goroutines that are not registered (background workers, timers) run freely
// and are never paused; the physical backend reports their operations so that
// a harness can require an execution to be "pure".
//
// The scheduler itself takes no decisions: a Chooser does (see explore.go).
package sched

import (
	"bytes"
	"fmt"
	mrand "math/rand/v2"
	"runtime"
	"strconv"
	"sync"
	"sync/atomic"
	"time"
)

// goid returns the current goroutine id (parsed from the stack header).
func goid() uint64 {
	var buf [64]byte
	n := runtime.Stack(buf[:], false)
	// "goroutine 123 [running]:"
	b := buf[:n]
	b = b[len("goroutine "):]
	i := bytes.IndexByte(b, ' ')
	if i < 0 {
		return 0
	}
	id, _ := strconv.ParseUint(string(b[:i]), 10, 64)
	return id
}

type threadState int

const (
	stNew threadState = iota
	stRunnable
	stBlocked
	stRunning
	stDone
)

type Thread struct {
	ID      int
	Name    string
	s       *Scheduler
	state   threadState
	blockOn interface{}
	resume  chan struct{}
	point   string // description of the pending point
	panicV  interface{}
	rng     *mrand.ChaCha8
	fn      func() // RunFree only
}

type event struct {
	t    *Thread
	kind string // point | blocked | done
}

// PointInfo is what the chooser sees at each decision.
type PointInfo struct {
	Enabled        []int    // thread ids in canonical order (running first if still enabled, then ascending)
	Labels         []string // pending point description per enabled thread
	Running        int      // id of the thread that ran last (-1 at the start)
	RunningEnabled bool
}

type Chooser interface {
	// Choose returns an index into p.Enabled.
	Choose(step int, p PointInfo) int
}

type Scheduler struct {
	mu       sync.Mutex
	threads  []*Thread
	byGoid   sync.Map // goid -> *Thread
	events   chan event
	Fine     bool // every lock acquisition of a managed thread is a point
	Trace    []string
	Points   []PointInfo
	Choices  []int
	Deadlock bool
	Stuck    string // non-empty: a thread never reached a point (harness error)
	running  *Thread
	unlockGen atomic.Uint64
	Watchdog time.Duration
	MaxSteps int
	free     bool // RunFree: threads are plain goroutines
}

var active atomic.Pointer[Scheduler]

// Active returns the scheduler of the exploration in progress (or nil).
func Active() *Scheduler { return active.Load() }

func New() *Scheduler {
	return &Scheduler{events: make(chan event, 16), Watchdog: 30 * time.Second, MaxSteps: 20000}
}

// Go registers a managed thread.  It starts parked; nothing runs before Run.
func (s *Scheduler) Go(name string, f func()) *Thread {
	t := &Thread{ID: len(s.threads), Name: name, s: s, state: stNew, resume: make(chan struct{}, 1), point: "start"}
	s.threads = append(s.threads, t)
	if s.free {
		t.fn = f
		return t
	}
	go func() {
		s.byGoid.Store(goid(), t)
		defer func() {
			if r := recover(); r != nil {
				t.panicV = r
			}
			s.byGoid.Delete(goid())
			s.events <- event{t, "done"}
		}()
		<-t.resume
		f()
	}()
	return t
}

// Current returns the managed thread of the calling goroutine, or nil.
func Current() *Thread {
	s := active.Load()
	if s == nil {
		return nil
	}
	if v, ok := s.byGoid.Load(goid()); ok {
		return v.(*Thread)
	}
	return nil
}

// Point is a scheduling point for the calling goroutine if it is managed.
func Point(label string) {
	if t := Current(); t != nil {
		t.yield("point", label, nil)
	}
}

func (t *Thread) yield(kind, label string, on interface{}) {
	t.point = label
	t.blockOn = on
	t.s.events <- event{t, kind}
	<-t.resume
}

// BlockOn parks the calling managed thread until obj is unlocked (NotifyUnlock).
func (t *Thread) BlockOn(obj interface{}, label string) {
	t.yield("blocked", label, obj)
}

// FinePoint is a point only in fine mode.
func (t *Thread) FinePoint(label string) {
	if t.s.Fine {
		t.yield("point", label, nil)
	}
}

// NotifyUnlock is called by the vsync shim after every unlock while an
// exploration is active.
func NotifyUnlock(obj interface{}) {
	s := active.Load()
	if s == nil {
		return
	}
	s.mu.Lock()
	for _, t := range s.threads {
		if t.state == stBlocked && t.blockOn == obj {
			t.state = stRunnable
		}
	}
	s.mu.Unlock()
	s.unlockGen.Add(1)
}

// Panics returns the recovered panic values of the threads (nil entries for none).
func (s *Scheduler) Panics() []interface{} {
	out := make([]interface{}, len(s.threads))
	for i, t := range s.threads {
		out[i] = t.panicV
	}
	return out
}

// Run executes all registered threads to completion under the chooser.
func (s *Scheduler) Run(ch Chooser) {
	if !active.CompareAndSwap(nil, s) {
		panic("sched: another exploration is active")
	}
	defer active.Store(nil)
	for _, t := range s.threads {
		t.state = stRunnable
	}
	last := -1
	for step := 0; ; step++ {
		if step > s.MaxSteps {
			s.Stuck = "step limit exceeded"
			s.releaseAll()
			return
		}
		enabled := s.enabled(last)
		if len(enabled) == 0 {
			if s.allDone() {
				return
			}
			// Only blocked threads remain.  The lock may be held by an
			// unmanaged goroutine: retry for a while, then report deadlock.
			if !s.retryBlocked() {
				s.Deadlock = true
				s.releaseAll()
				return
			}
			step--
			continue
		}
		pi := PointInfo{Running: last}
		for _, t := range enabled {
			pi.Enabled = append(pi.Enabled, t.ID)
			pi.Labels = append(pi.Labels, t.point)
		}
		pi.RunningEnabled = len(enabled) > 0 && enabled[0].ID == last
		c := ch.Choose(len(s.Points), pi)
		if c < 0 || c >= len(enabled) {
			s.Stuck = fmt.Sprintf("chooser returned %d for %d enabled threads (replay divergence)", c, len(enabled))
			s.releaseAll()
			return
		}
		s.Points = append(s.Points, pi)
		s.Choices = append(s.Choices, c)
		t := enabled[c]
		s.Trace = append(s.Trace, fmt.Sprintf("%s:%s", t.Name, t.point))
		s.mu.Lock()
		t.state = stRunning
		s.mu.Unlock()
		last = t.ID
		t.resume <- struct{}{}
		// wait for this thread's next event
		select {
		case ev := <-s.events:
			s.mu.Lock()
			switch ev.kind {
			case "point":
				ev.t.state = stRunnable
			case "blocked":
				// The unlock may already have happened between the failed
				// TryLock and this registration: stay conservative and let it
				// retry once; it will block again if still held.
				ev.t.state = stBlocked
			case "done":
				ev.t.state = stDone
			}
			s.mu.Unlock()
		case <-time.After(s.Watchdog):
			s.Stuck = fmt.Sprintf("thread %s did not reach a scheduling point within %s after %q", t.Name, s.Watchdog, t.point)
			s.releaseAll()
			return
		}
	}
}

func (s *Scheduler) allDone() bool {
	s.mu.Lock()
	defer s.mu.Unlock()
	for _, t := range s.threads {
		if t.state != stDone {
			return false
		}
	}
	return true
}

// enabled returns runnable threads in canonical order.
func (s *Scheduler) enabled(last int) []*Thread {
	s.mu.Lock()
	defer s.mu.Unlock()
	var out []*Thread
	if last >= 0 && s.threads[last].state == stRunnable {
		out = append(out, s.threads[last])
	}
	for _, t := range s.threads {
		if t.ID != last && t.state == stRunnable {
			out = append(out, t)
		}
	}
	return out
}

// retryBlocked makes blocked threads runnable again after a pause (the lock
// holder may be an unmanaged goroutine).  Returns false when it gave up.
func (s *Scheduler) retryBlocked() bool {
	for i := 0; i < 200; i++ {
		gen := s.unlockGen.Load()
		time.Sleep(time.Duration(50*(i+1)) * time.Microsecond)
		s.mu.Lock()
		any := false
		for _, t := range s.threads {
			if t.state == stRunnable {
				any = true
			}
		}
		if !any && (s.unlockGen.Load() != gen || i%20 == 19) {
			for _, t := range s.threads {
				if t.state == stBlocked {
					t.state = stRunnable
					any = true
				}
			}
		}
		s.mu.Unlock()
		if any {
			return true
		}
	}
	return false
}

// releaseAll lets every parked thread run freely to completion (used only on
// harness errors so that goroutines do not leak while holding locks).
func (s *Scheduler) releaseAll() {
	active.Store(nil)
	s.mu.Lock()
	ts := append([]*Thread{}, s.threads...)
	s.mu.Unlock()
	for _, t := range ts {
		s.byGoid.Range(func(k, v interface{}) bool {
			if v.(*Thread) == t {
				s.byGoid.Delete(k)
			}
			return true
		})
	}
	for _, t := range ts {
		select {
		case t.resume <- struct{}{}:
		default:
		}
	}
	// drain events for a moment so finished threads do not block on send
	go func() {
		timeout := time.After(5 * time.Second)
		for {
			select {
			case ev := <-s.events:
				select {
				case ev.t.resume <- struct{}{}:
				default:
				}
			case <-timeout:
				return
			}
		}
	}()
}
