package sched

import (
	"fmt"
	"strings"
)

// replayChooser replays a prefix of choices, then always takes choice 0 (the
// running thread if it is still enabled, else the lowest enabled id).
type replayChooser struct {
	prefix []int
	bad    bool
}

func (r *replayChooser) Choose(step int, p PointInfo) int {
	if step < len(r.prefix) {
		c := r.prefix[step]
		if c >= len(p.Enabled) {
			r.bad = true
			return -1
		}
		return c
	}
	return 0
}

// Exec is the record of one complete execution.
type Exec struct {
	Choices     []int
	PrefixLen   int
	Points      []PointInfo
	Trace       []string
	Preemptions int
	Deadlock    bool
	Stuck       string
	Panics      []interface{}
	// Obs is filled by the harness body (observations to compare).
	Obs interface{}
}

// Body builds a fresh system, registers threads on s and returns a finish
// function that is called after the run (collect observations, tear down).
type Body func(s *Scheduler) (finish func(x *Exec))

// RunOnce executes body under the given choice prefix.
func RunOnce(body Body, prefix []int, fine bool) *Exec {
	s := New()
	s.Fine = fine
	finish := body(s)
	ch := &replayChooser{prefix: prefix}
	s.Run(ch)
	x := &Exec{PrefixLen: len(prefix), Choices: s.Choices, Points: s.Points, Trace: s.Trace, Deadlock: s.Deadlock, Stuck: s.Stuck, Panics: s.Panics()}
	for i, c := range x.Choices {
		if c != 0 && x.Points[i].RunningEnabled {
			x.Preemptions++
		}
	}
	if finish != nil {
		finish(x)
	}
	return x
}

// RunFree executes body with its threads as ordinary, free-running goroutines
// (no scheduler, no hand-offs).  It exists for the separate race-detector pass:
// under the cooperative scheduler every hand-off is a happens-before edge, so
// only a free-running run lets `-race` see unsynchronised accesses.
func RunFree(body Body) *Exec {
	s := New()
	s.free = true
	finish := body(s)
	start := make(chan struct{})
	done := make(chan int, len(s.threads))
	for i, t := range s.threads {
		i, t := i, t
		go func() {
			defer func() {
				if r := recover(); r != nil {
					t.panicV = r
				}
				done <- i
			}()
			<-start
			t.fn()
		}()
	}
	close(start)
	for range s.threads {
		<-done
	}
	x := &Exec{Panics: s.Panics()}
	if finish != nil {
		finish(x)
	}
	return x
}

// Explorer is a stateless depth-first explorer with preemption bounding.
type Explorer struct {
	Body  Body
	Bound int // maximum number of preemptions (-1 = unbounded)
	Fine  bool
	// Check is called for every complete execution.
	Check func(x *Exec)
	// Owner decides, for work-sharing between processes, whether this process
	// explores the subtree rooted at the k-th depth-2 node (nil = everything).
	Owner func(k int) bool
	// Stop is polled between executions (deadline); true aborts the search.
	Stop func() bool

	Executions int
	Stopped    bool
	Errors     []string
	MaxPoints  int
	Retries    int
	depth1     int
	depth2     int
}

func (e *Explorer) preemptionsBefore(x *Exec, i int) int {
	n := 0
	for j := 0; j < i; j++ {
		if x.Choices[j] != 0 && x.Points[j].RunningEnabled {
			n++
		}
	}
	return n
}

// Run explores everything reachable within the bound.
func (e *Explorer) Run() {
	e.explore(nil, 0, nil)
}

func (e *Explorer) explore(prefix []int, depth int, parent *Exec) {
	if e.Stopped {
		return
	}
	if e.Stop != nil && e.Stop() {
		e.Stopped = true
		return
	}
	owned := true
	if e.Owner != nil {
		switch depth {
		case 0:
			owned = e.Owner(0)
		case 1:
			// executed by every process (to find its children), checked by one
			e.depth1++
			owned = e.Owner(e.depth1)
		case 2:
			e.depth2++
			if !e.Owner(e.depth2) {
				return
			}
		}
	}
	x := RunOnce(e.Body, prefix, e.Fine)
	for retry := 0; retry < 3 && x.Stuck != "" && strings.Contains(x.Stuck, "replay divergence"); retry++ {
		// Residual nondeterminism inside a thread (Go map iteration order
		// deciding which lock is held at a point) can make a recorded prefix
		// momentarily infeasible; the prefix itself was observed, so retry.
		e.Retries++
		x = RunOnce(e.Body, prefix, e.Fine)
	}
	if x.Stuck != "" {
		msg := fmt.Sprintf("prefix %v: %s\n  this run: %v", prefix, x.Stuck, x.Trace)
		if parent != nil {
			msg += fmt.Sprintf("\n  parent run: %v\n  parent enabled at divergence: %v", parent.Trace, parent.Points[min(len(x.Points), len(parent.Points)-1)])
		}
		e.Errors = append(e.Errors, msg)
		return
	}
	if owned {
		e.Executions++
		if len(x.Points) > e.MaxPoints {
			e.MaxPoints = len(x.Points)
		}
		if e.Check != nil {
			e.Check(x)
		}
	}
	for i := len(prefix); i < len(x.Points); i++ {
		p := x.Points[i]
		if len(p.Enabled) < 2 {
			continue
		}
		cost := e.preemptionsBefore(x, i)
		if p.RunningEnabled {
			cost++
		}
		if e.Bound >= 0 && cost > e.Bound {
			continue
		}
		for alt := 1; alt < len(p.Enabled); alt++ {
			np := append(append([]int{}, x.Choices[:i]...), alt)
			d := depth + 1
			if d > 3 {
				d = 3
			}
			e.explore(np, d, x)
			if e.Stopped {
				return
			}
		}
	}
}

