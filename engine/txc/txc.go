// Package txc is the shared checker for the storage-transaction contract
// (property C08): committed transactions are equivalent to a serial execution
// in commit order, conflicts fail with the commit-conflict error and leave no
// trace, transactions read their own writes, read-only transactions refuse
// writes and finished transactions refuse everything.
//
// The checker is an exhaustive enumerator: for a set of small transaction
// programs it executes EVERY merge order of their steps (and, for backends with
// an asynchronous state machine, of the environment's "apply next entry"
// events) on a fresh real backend and compares each step with a serial
// key/value reference.
package txc

import (
	"errors"
	"fmt"
	"sort"
	"strings"

	"github.com/openbao/openbao/sdk/v2/helper/verif/kvc"
	"github.com/openbao/openbao/sdk/v2/physical"
)

type Tx interface {
	kvc.KV
	Commit() error
	Rollback() error
}

type Backend interface {
	kvc.KV
	Begin(readOnly bool) (Tx, error)
}

// Step ops: begin, beginro, get, put, del, list, listpage, commit, rollback
// (inside a transaction) and pput, pdel, pget (plain, outside any transaction).
type Step struct {
	Op    string `json:"op"`
	Key   string `json:"k,omitempty"`
	Val   string `json:"v,omitempty"`
	After string `json:"a,omitempty"`
	Limit int    `json:"l,omitempty"`
}

func (s Step) String() string {
	switch s.Op {
	case "put", "pput", "putx":
		return fmt.Sprintf("%s(%s=%s)", s.Op, s.Key, s.Val)
	case "listpage":
		return fmt.Sprintf("listpage(%s,after=%q,limit=%d)", s.Key, s.After, s.Limit)
	case "begin", "beginro", "commit", "rollback":
		return s.Op
	}
	return fmt.Sprintf("%s(%s)", s.Op, s.Key)
}

type Program struct {
	Name  string `json:"name"`
	Steps []Step `json:"steps"`
}

func P(name string, steps ...Step) Program { return Program{Name: name, Steps: steps} }

func Begin() Step                  { return Step{Op: "begin"} }
func BeginRO() Step                { return Step{Op: "beginro"} }
func Get(k string) Step            { return Step{Op: "get", Key: k} }
func Put(k, v string) Step         { return Step{Op: "put", Key: k, Val: v} }
func Del(k string) Step            { return Step{Op: "del", Key: k} }

// PutX is a put issued with a request context that is already cancelled (a client
// that went away): the call may fail or succeed, but a call that FAILED must have no
// effect when the transaction is committed afterwards.
func PutX(k, v string) Step { return Step{Op: "putx", Key: k, Val: v} }

// CancelPutter is implemented by the stacks' adapters: Put with a cancelled context.
type CancelPutter interface {
	PutCancelled(k string, v []byte) error
}
func List(p string) Step           { return Step{Op: "list", Key: p} }
func ListPage(p, a string, l int) Step { return Step{Op: "listpage", Key: p, After: a, Limit: l} }
func Commit() Step                 { return Step{Op: "commit"} }
func Rollback() Step               { return Step{Op: "rollback"} }
func PPut(k, v string) Step        { return Step{Op: "pput", Key: k, Val: v} }
func PDel(k string) Step           { return Step{Op: "pdel", Key: k} }
func PGet(k string) Step           { return Step{Op: "pget", Key: k} }

// Templates returns the program alphabet, chosen to collide on keys
// {a, b, d/x, d/y}: write skew halves, phantoms, blind writes, RMW,
// read-your-writes, paginated listings, read-only misuse, rollback.
func Templates() []Program {
	return []Program{
		P("r(a)w(b)", Begin(), Get("a"), Put("b", "1"), Commit()),
		P("r(b)w(a)", Begin(), Get("b"), Put("a", "2"), Commit()),
		P("l(d/)w(d/x)", Begin(), List("d/"), Put("d/x", "3"), Commit()),
		P("l(d/)w(d/y)", Begin(), List("d/"), Put("d/y", "4"), Commit()),
		P("w(a)", Begin(), Put("a", "5"), Commit()),
		P("w(a)'", Begin(), Put("a", "6"), Commit()),
		P("rmw(a)", Begin(), Get("a"), Put("a", "7"), Commit()),
		P("d(a)", Begin(), Del("a"), Commit()),
		P("r(a)r(b)", Begin(), Get("a"), Get("b"), Commit()),
		P("ro:r(a)r(b)", BeginRO(), Get("a"), Get("b"), Commit()),
		P("ro:l(d/)r(a)", BeginRO(), List("d/"), Get("a"), Commit()),
		P("w(d/y)l(d/)", Begin(), Put("d/y", "8"), List("d/"), Commit()),
		P("w(a)r(a)", Begin(), Put("a", "9"), Get("a"), Commit()),
		P("d(d/x)l(d/)", Begin(), Del("d/x"), List("d/"), Commit()),
		P("lp(,a,1)w(b)", Begin(), ListPage("", "a", 1), Put("b", "10"), Commit()),
		P("lp(d/,,1)w(d/z)", Begin(), ListPage("d/", "", 1), Put("d/z", "11"), Commit()),
		P("ro:w(a)", BeginRO(), Put("a", "x"), Get("a"), Commit()),
		P("r(a)w(b)rollback", Begin(), Get("a"), Put("b", "12"), Rollback()),
		P("l()w(c)", Begin(), List(""), Put("c", "13"), Commit()),
		P("w(d/y)d(d/y)", Begin(), Put("d/y", "14"), Del("d/y"), Commit()),
		P("r(d/x)d(d/x)w(a)", Begin(), Get("d/x"), Del("d/x"), Put("a", "15"), Commit()),
		// the same (prefix, after) listed more than once with different limits: every
		// listing must stay valid until commit, not only the latest / the largest
		// (run from RichInitial, where d/ holds three entries, against writers that
		// change the third entry or insert before it)
		P("lp(d/,,3)lp(d/,,1)w(b)", Begin(), ListPage("d/", "", 3), ListPage("d/", "", 1), Put("b", "16"), Commit()),
		P("lp(d/,,1)lp(d/,,3)w(b)", Begin(), ListPage("d/", "", 1), ListPage("d/", "", 3), Put("b", "17"), Commit()),
		P("l(d/)lp(d/,,1)w(b)", Begin(), List("d/"), ListPage("d/", "", 1), Put("b", "18"), Commit()),
		// a write that fails inside the transaction (cancelled request context), followed by
		// a commit: the failed write must not become visible
		P("putx(a)w(b)", Begin(), PutX("a", "19"), Put("b", "24"), Commit()),
		P("r(a)putx(a)w(b)", Begin(), Get("a"), PutX("a", "25"), Put("b", "26"), Commit()),
		// one key written more than once inside the transaction, then an observation that a
		// concurrent writer invalidates: the refused commit must leave the PRE-transaction value
		// (not the transaction's own first write) and must not create or remove anything
		P("w(a)w(a)r(b)", Begin(), Put("a", "27"), Put("a", "28"), Get("b"), Commit()),
		P("w(d/t)d(d/t)r(b)", Begin(), Put("d/t", "29"), Del("d/t"), Get("b"), Commit()),
		P("d(a)w(a)r(b)", Begin(), Del("a"), Put("a", "30"), Get("b"), Commit()),
		P("pput(a)", PPut("a", "20")),
		P("pdel(a)", PDel("a")),
		P("pput(d/y)", PPut("d/y", "21")),
		P("pget(a)", PGet("a")),
		P("pput(b)pget(a)", PPut("b", "22"), PGet("a")),
		P("pput(b,'')", PPut("b", "")),
		P("pdel(d/z)", PDel("d/z")),
		P("pput(d/yy)", PPut("d/yy", "23")),
	}
}

// RichInitial is the start state for the repeated-listing programs.
func RichInitial() map[string]string {
	return map[string]string{"a": "0", "d/x": "0", "d/y": "0", "d/z": "0"}
}

// RepeatedListing reports whether the program lists the same prefix more than once.
func RepeatedListing(p Program) bool {
	n := 0
	for _, st := range p.Steps {
		if st.Op == "list" || st.Op == "listpage" {
			n++
		}
	}
	return n >= 2
}

// ---- observations and reference ------------------------------------------------

type Obs struct {
	Step  Step
	Found bool
	Val   string
	List  []string
	Err   string // "", readonly, finished, conflict, other:<msg>
}

func ErrClass(err error) string {
	switch {
	case err == nil:
		return ""
	case errors.Is(err, physical.ErrTransactionReadOnly):
		return "readonly"
	case errors.Is(err, physical.ErrTransactionAlreadyCommitted):
		return "finished"
	case errors.Is(err, physical.ErrTransactionCommitFailure):
		return "conflict"
	}
	s := err.Error()
	if len(s) > 120 {
		s = s[:120]
	}
	return "other:" + s
}

type txState struct {
	tx       Tx
	ro       bool
	begun    bool
	finished bool
	beginVer int
	obs      []Obs
	wrote    bool
}

func clone(m map[string]string) map[string]string {
	o := make(map[string]string, len(m))
	for k, v := range m {
		o[k] = v
	}
	return o
}

// replayAt re-evaluates a transaction's recorded reads against state S plus
// the transaction's own earlier writes; returns "" when all observations agree.
func replayAt(S map[string]string, obs []Obs) string {
	cur := clone(S)
	for i, o := range obs {
		if o.Err != "" {
			continue
		}
		switch o.Step.Op {
		case "put", "putx":
			cur[o.Step.Key] = o.Step.Val
		case "del":
			delete(cur, o.Step.Key)
		case "get":
			v, ok := cur[o.Step.Key]
			if ok != o.Found || (ok && v != o.Val) {
				cls := ""
				if v == "" && o.Val == "" && ok != o.Found {
					cls = "[missing-vs-empty] "
				}
				return fmt.Sprintf("%sop %d %s observed (%q,%v) but serial value is (%q,%v)", cls, i, o.Step, o.Val, o.Found, v, ok)
			}
		case "list":
			want := kvc.RefList(cur, o.Step.Key)
			got := append([]string{}, o.List...)
			sort.Strings(got)
			if strings.Join(got, "\n") != strings.Join(want, "\n") {
				return fmt.Sprintf("op %d %s observed %q but serial listing is %q", i, o.Step, o.List, want)
			}
		case "listpage":
			want := kvc.RefListPage(cur, o.Step.Key, o.Step.After, o.Step.Limit)
			if strings.Join(o.List, "\n") != strings.Join(want, "\n") {
				return fmt.Sprintf("op %d %s observed %q but serial listing is %q", i, o.Step, o.List, want)
			}
		}
	}
	return ""
}

// Checker holds the serial reference for one execution.
type Checker struct {
	Hist []map[string]string // reference state versions
	Txs  []*txState
	// Counters for vacuity reporting
	Commits, Conflicts, SpuriousConflicts int
}

func NewChecker(initial map[string]string, nprog int) *Checker {
	c := &Checker{Hist: []map[string]string{clone(initial)}}
	for i := 0; i < nprog; i++ {
		c.Txs = append(c.Txs, &txState{})
	}
	return c
}

func (c *Checker) cur() map[string]string { return c.Hist[len(c.Hist)-1] }

// Ver is the index of the latest committed reference state.
func (c *Checker) Ver() int { return len(c.Hist) - 1 }

// SetBeginVer widens the window of committed states a transaction's snapshot
// may stem from (used when an environment event lands INSIDE its begin step).
func (c *Checker) SetBeginVer(p, v int) {
	if v < c.Txs[p].beginVer {
		c.Txs[p].beginVer = v
	}
}

// Violation describes a disagreement with the reference.
type Violation struct {
	Kind string
	Msg  string
}

func (v *Violation) Error() string { return v.Kind + ": " + v.Msg }

// OnComplete feeds the result of a completed step of program p and applies the
// oracle.  For commit steps, `at` is the reference version at which the commit
// serialises (for synchronous backends: the current one).
func (c *Checker) OnComplete(p int, st Step, o Obs) *Violation {
	t := c.Txs[p]
	switch st.Op {
	case "pput", "pdel":
		if o.Err != "" {
			return &Violation{"plain-write-error", fmt.Sprintf("%s failed: %s", st, o.Err)}
		}
		n := clone(c.cur())
		if st.Op == "pput" {
			n[st.Key] = st.Val
		} else {
			delete(n, st.Key)
		}
		c.Hist = append(c.Hist, n)
	case "pget":
		if o.Err != "" {
			return &Violation{"plain-read-error", fmt.Sprintf("%s failed: %s", st, o.Err)}
		}
		v, ok := c.cur()[st.Key]
		if ok != o.Found || (ok && v != o.Val) {
			return &Violation{"plain-read-stale", fmt.Sprintf("%s returned (%q,%v), last committed value is (%q,%v)", st, o.Val, o.Found, v, ok)}
		}
	case "begin", "beginro":
		if o.Err != "" {
			return &Violation{"begin-error", o.Err}
		}
		t.begun = true
		t.ro = st.Op == "beginro"
		t.beginVer = len(c.Hist) - 1
	case "get", "list", "listpage":
		if t.finished {
			if o.Err != "finished" {
				return &Violation{"finished-tx-usable", fmt.Sprintf("%s on a finished transaction returned err=%q", st, o.Err)}
			}
			return nil
		}
		if o.Err != "" {
			return &Violation{"tx-read-error", fmt.Sprintf("%s failed: %s", st, o.Err)}
		}
		t.obs = append(t.obs, o)
		// read-your-writes / snapshot consistency is judged at finish time
	case "put", "del", "putx":
		if t.finished {
			if o.Err != "finished" {
				return &Violation{"finished-tx-usable", fmt.Sprintf("%s on a finished transaction returned err=%q", st, o.Err)}
			}
			return nil
		}
		if t.ro {
			if o.Err != "readonly" {
				return &Violation{"readonly-tx-accepts-write", fmt.Sprintf("%s on a read-only transaction returned err=%q", st, o.Err)}
			}
			return nil
		}
		if o.Err != "" && st.Op == "putx" {
			// refused: recorded with its error, so it contributes nothing to the
			// transaction's writes (observations with an error are skipped everywhere)
			t.obs = append(t.obs, o)
			return nil
		}
		if o.Err != "" {
			return &Violation{"tx-write-error", fmt.Sprintf("%s failed: %s", st, o.Err)}
		}
		t.obs = append(t.obs, o)
		t.wrote = true
	case "rollback":
		if o.Err != "" {
			return &Violation{"rollback-error", o.Err}
		}
		t.finished = true
		if msg := c.someSnapshot(t); msg != "" {
			return &Violation{"inconsistent-reads", msg}
		}
	case "commit":
		t.finished = true
		if t.ro || !t.wrote {
			if o.Err != "" {
				// a write-free commit is equivalent to rollback and cannot conflict
				return &Violation{"readonly-commit-error", o.Err}
			}
			if msg := c.someSnapshot(t); msg != "" {
				return &Violation{"inconsistent-reads", msg}
			}
			return nil
		}
		if o.Err == "" {
			if msg := replayAt(c.cur(), t.obs); msg != "" {
				kind := "committed-stale-read"
				if strings.HasPrefix(msg, "[missing-vs-empty] ") {
					kind += ":missing-vs-empty"
				}
				return &Violation{kind, "transaction committed although " + msg}
			}
			n := clone(c.cur())
			for _, ob := range t.obs {
				if ob.Err != "" {
					continue // a refused write has no effect
				}
				if ob.Step.Op == "put" || ob.Step.Op == "putx" {
					n[ob.Step.Key] = ob.Step.Val
				} else if ob.Step.Op == "del" {
					delete(n, ob.Step.Key)
				}
			}
			c.Hist = append(c.Hist, n)
			c.Commits++
			return nil
		}
		if o.Err != "conflict" {
			return &Violation{"commit-wrong-error", fmt.Sprintf("commit failed with %q, not the commit-conflict error", o.Err)}
		}
		c.Conflicts++
		if len(c.Hist)-1 == t.beginVer {
			return &Violation{"conflict-without-concurrent-change", "commit reported a conflict although nothing was committed since the transaction began"}
		}
		if replayAt(c.cur(), t.obs) == "" {
			c.SpuriousConflicts++
		}
		if msg := c.someSnapshot(t); msg != "" {
			return &Violation{"inconsistent-reads", msg}
		}
	}
	return nil
}

// someSnapshot: the transaction's reads (with its own writes overlaid) must be
// explained by ONE committed state between its begin and now.
func (c *Checker) someSnapshot(t *txState) string {
	if !t.begun {
		return ""
	}
	last := ""
	for v := t.beginVer; v < len(c.Hist); v++ {
		if last = replayAt(c.Hist[v], t.obs); last == "" {
			return ""
		}
	}
	return "no single committed state between begin and finish explains the reads: " + last
}

// Final compares the backend's committed content with the reference.
func (c *Checker) Final(b kvc.KV, keys []string) *Violation {
	ref := c.cur()
	for _, k := range keys {
		v, found, err := b.Get(k)
		if err != nil {
			return &Violation{"final-read-error", err.Error()}
		}
		w, ok := ref[k]
		if ok != found || (ok && string(v) != w) {
			return &Violation{"final-state", fmt.Sprintf("after all transactions finished key %q = (%q,%v), serial reference (%q,%v)", k, v, found, w, ok)}
		}
	}
	for _, p := range []string{"", "d/"} {
		got, err := b.List(p)
		if err != nil {
			return &Violation{"final-read-error", err.Error()}
		}
		g := append([]string{}, got...)
		sort.Strings(g)
		want := kvc.RefList(ref, p)
		if strings.Join(g, "\n") != strings.Join(want, "\n") {
			return &Violation{"final-state", fmt.Sprintf("after all transactions finished list(%q) = %q, serial reference %q", p, got, want)}
		}
	}
	return nil
}

var Keys = []string{"a", "b", "c", "d/x", "d/y", "d/z"}

// Exec performs one step against the backend / transaction.
func Exec(b Backend, t *Tx, st Step) Obs {
	o := Obs{Step: st}
	var err error
	var kv kvc.KV = b
	plain := st.Op == "pput" || st.Op == "pdel" || st.Op == "pget"
	if !plain && st.Op != "begin" && st.Op != "beginro" {
		kv = *t
	}
	switch st.Op {
	case "begin", "beginro":
		var tx Tx
		tx, err = b.Begin(st.Op == "beginro")
		*t = tx
	case "get", "pget":
		var v []byte
		v, o.Found, err = kv.Get(st.Key)
		o.Val = string(v)
	case "putx":
		if cp, ok := kv.(CancelPutter); ok {
			err = cp.PutCancelled(st.Key, []byte(st.Val))
		} else {
			err = kv.Put(st.Key, []byte(st.Val))
		}
	case "put", "pput":
		err = kv.Put(st.Key, []byte(st.Val))
	case "del", "pdel":
		err = kv.Delete(st.Key)
	case "list":
		o.List, err = kv.List(st.Key)
	case "listpage":
		o.List, err = kv.ListPage(st.Key, st.After, st.Limit)
	case "commit":
		err = (*t).Commit()
	case "rollback":
		err = (*t).Rollback()
	}
	o.Err = ErrClass(err)
	return o
}

// Replay is the artefact of one execution.
type Replay struct {
	Stack    string            `json:"stack"`
	Initial  map[string]string `json:"initial"`
	Programs []Program         `json:"programs"`
	Schedule []int             `json:"schedule"` // program index per step; -1 = environment "apply next entry"
}

func (r Replay) String() string {
	var names []string
	for _, p := range r.Programs {
		names = append(names, p.Name)
	}
	return fmt.Sprintf("stack=%s initial=%v programs=%v schedule=%v", r.Stack, r.Initial, names, r.Schedule)
}

// RunSequential executes one schedule on a synchronous backend.  After the last
// scheduled step of each transaction program a probe get is issued on the
// finished transaction (it must be refused).
func RunSequential(b Backend, rp Replay) (*Checker, *Violation) {
	c := NewChecker(rp.Initial, len(rp.Programs))
	txs := make([]Tx, len(rp.Programs))
	pc := make([]int, len(rp.Programs))
	for _, p := range rp.Schedule {
		st := rp.Programs[p].Steps[pc[p]]
		pc[p]++
		o := Exec(b, &txs[p], st)
		if v := c.OnComplete(p, st, o); v != nil {
			return c, v
		}
		if (st.Op == "commit" || st.Op == "rollback") && txs[p] != nil {
			probe := Get("a")
			o := Exec(b, &txs[p], probe)
			if v := c.OnComplete(p, probe, o); v != nil {
				return c, v
			}
		}
	}
	return c, c.Final(b, Keys)
}

// Merges enumerates every interleaving of programs with the given step counts.
func Merges(lens []int, visit func(schedule []int)) {
	total := 0
	for _, l := range lens {
		total += l
	}
	pc := make([]int, len(lens))
	sched := make([]int, 0, total)
	var rec func()
	rec = func() {
		if len(sched) == total {
			visit(sched)
			return
		}
		for p := range lens {
			if pc[p] < lens[p] {
				pc[p]++
				sched = append(sched, p)
				rec()
				sched = sched[:len(sched)-1]
				pc[p]--
			}
		}
	}
	rec()
}
