// Package vout is the result protocol between a harness process and bin/check.
//
// A harness (a Go test function compiled inside the openbao module through a
// build overlay) creates one Result, bumps counters while it explores, records
// violations, and calls Write at the end.  bin/check merges the shard results,
// writes the evidence file and decides the exit code.  Nothing in here decides
// a property; it only carries numbers that were measured by the explorers.
package vout

import (
	"crypto/sha256"
	"encoding/hex"
	"encoding/json"
	"fmt"
	"os"
	"sort"
	"strconv"
	"strings"
	"sync"
	"time"
)

// Violation is one model-disagreeing execution.  Sig is the stable signature
// used to match KNOWN_FINDINGS.txt; Replay is whatever the harness needs to
// re-execute exactly this case (choice list, operation list, input tuple).
type Violation struct {
	Sig    string      `json:"sig"`
	Desc   string      `json:"desc"`
	Replay interface{} `json:"replay,omitempty"`
}

type Result struct {
	mu         sync.Mutex
	Property   string              `json:"property"`
	Unit       string              `json:"unit"`
	Shard      string              `json:"shard"`
	Tier       string              `json:"tier"`
	Counters   map[string]int64    `json:"counters"`
	Maxes      map[string]int64    `json:"maxes"`
	Sets       map[string][]string `json:"sets"`
	sets       map[string]map[string]struct{}
	Samples    []interface{}       `json:"samples"`
	Violations []Violation         `json:"violations"`
	Notes      []string            `json:"notes"`
	Bounds     map[string]interface{} `json:"bounds"`
	Exhaustive bool                `json:"exhaustive"`
	WallS      float64             `json:"wall_s"`
	start      time.Time
	vioSeen    map[string]int
	fallbackSample interface{}
}

func New(property, unit string) *Result {
	return &Result{
		Property: property, Unit: unit,
		Shard: os.Getenv("VERIF_SHARD"), Tier: Tier(),
		Counters: map[string]int64{}, Maxes: map[string]int64{},
		sets: map[string]map[string]struct{}{}, Bounds: map[string]interface{}{},
		Exhaustive: true, start: time.Now(), vioSeen: map[string]int{},
	}
}

// Tier returns "quick" or "thorough".
func Tier() string {
	if os.Getenv("VERIF_TIER") == "thorough" {
		return "thorough"
	}
	return "quick"
}

func Thorough() bool { return Tier() == "thorough" }

// Shard returns (index, count) from VERIF_SHARD="i/n" (default 0/1).
func Shard() (int, int) {
	s := os.Getenv("VERIF_SHARD")
	if s == "" {
		return 0, 1
	}
	p := strings.SplitN(s, "/", 2)
	if len(p) != 2 {
		return 0, 1
	}
	i, e1 := strconv.Atoi(p[0])
	n, e2 := strconv.Atoi(p[1])
	if e1 != nil || e2 != nil || n <= 0 || i < 0 || i >= n {
		return 0, 1
	}
	return i, n
}

// Mine reports whether work item k belongs to this shard.
func Mine(k int) bool {
	i, n := Shard()
	return k%n == i
}

// DeadlineS is the internal time budget (seconds) a harness should respect; on
// reaching it the harness stops enumerating, reports exhaustive=false and exits 0.
func DeadlineS() int {
	n, err := strconv.Atoi(os.Getenv("VERIF_DEADLINE_S"))
	if err != nil || n <= 0 {
		return 3600
	}
	return n
}

// ReplayPath is non-empty when the harness is asked to re-execute one artefact.
func ReplayPath() string { return os.Getenv("VERIF_REPLAY") }

// LoadReplay decodes the "replay" member of a violation artefact into v.
func LoadReplay(v interface{}) (sig string, err error) {
	b, err := os.ReadFile(ReplayPath())
	if err != nil {
		return "", err
	}
	var art struct {
		Sig    string          `json:"sig"`
		Replay json.RawMessage `json:"replay"`
	}
	if err := json.Unmarshal(b, &art); err != nil {
		return "", err
	}
	return art.Sig, json.Unmarshal(art.Replay, v)
}

func (r *Result) Add(name string, n int64) {
	r.mu.Lock()
	r.Counters[name] += n
	r.mu.Unlock()
}

func (r *Result) Max(name string, n int64) {
	r.mu.Lock()
	if n > r.Maxes[name] {
		r.Maxes[name] = n
	}
	r.mu.Unlock()
}

// Distinct adds member to a named set; the merged cardinality is reported.
// Members longer than 24 bytes are stored as a short hash.
func (r *Result) Distinct(set, member string) {
	// safety net for the evidence: if the harness's own sampling rule selected nothing in
	// this shard (it depends on how work items fall onto shards), the first non-trivial
	// case itself is kept as a sample at Write time
	r.mu.Lock()
	if r.fallbackSample == nil && set == "nontrivial" {
		r.fallbackSample = map[string]interface{}{"nontrivial_case": member}
	}
	r.mu.Unlock()
	if len(member) > 24 {
		h := sha256.Sum256([]byte(member))
		member = hex.EncodeToString(h[:9])
	}
	r.mu.Lock()
	m := r.sets[set]
	if m == nil {
		m = map[string]struct{}{}
		r.sets[set] = m
	}
	m[member] = struct{}{}
	r.mu.Unlock()
}

func (r *Result) SetSize(set string) int {
	r.mu.Lock()
	defer r.mu.Unlock()
	return len(r.sets[set])
}

// Sample keeps at most 6 samples per shard.
func (r *Result) Sample(v interface{}) {
	r.mu.Lock()
	if len(r.Samples) < 6 {
		r.Samples = append(r.Samples, v)
	}
	r.mu.Unlock()
}

func (r *Result) Note(format string, a ...interface{}) {
	r.mu.Lock()
	if len(r.Notes) < 50 {
		r.Notes = append(r.Notes, fmt.Sprintf(format, a...))
	}
	r.mu.Unlock()
}

func (r *Result) Bound(name string, v interface{}) {
	r.mu.Lock()
	r.Bounds[name] = v
	r.mu.Unlock()
}

// NotExhaustive records that a cap was hit.
func (r *Result) NotExhaustive(why string) {
	r.mu.Lock()
	r.Exhaustive = false
	r.mu.Unlock()
	r.Note("not exhaustive: %s", why)
}

// Violate records a violation.  At most 3 artefacts are kept per signature
// (the first ones: explorers order their alphabets simplest-first).
func (r *Result) Violate(sig, desc string, replay interface{}) {
	r.mu.Lock()
	defer r.mu.Unlock()
	r.Counters["violations_total"]++
	r.vioSeen[sig]++
	if r.vioSeen[sig] > 3 || len(r.Violations) >= 60 {
		return
	}
	r.Violations = append(r.Violations, Violation{Sig: sig, Desc: desc, Replay: replay})
}

func (r *Result) NumViolations() int {
	r.mu.Lock()
	defer r.mu.Unlock()
	return int(r.Counters["violations_total"])
}

// Write stores the result where bin/check expects it (VERIF_OUT) or prints it.
func (r *Result) Write() error {
	r.mu.Lock()
	defer r.mu.Unlock()
	r.WallS = time.Since(r.start).Seconds()
	if len(r.Samples) == 0 && r.fallbackSample != nil {
		r.Samples = append(r.Samples, r.fallbackSample)
	}
	r.Sets = map[string][]string{}
	for k, m := range r.sets {
		l := make([]string, 0, len(m))
		for s := range m {
			l = append(l, s)
		}
		sort.Strings(l)
		r.Sets[k] = l
	}
	b, err := json.Marshal(r)
	if err != nil {
		return err
	}
	out := os.Getenv("VERIF_OUT")
	if out == "" {
		fmt.Println(string(b))
		return nil
	}
	tmp := out + ".tmp"
	if err := os.WriteFile(tmp, b, 0o644); err != nil {
		return err
	}
	return os.Rename(tmp, out)
}

// Hash is a short stable hash for canonical state keys.
func Hash(parts ...string) string {
	h := sha256.New()
	for _, p := range parts {
		fmt.Fprintf(h, "%d:", len(p))
		h.Write([]byte(p))
	}
	return hex.EncodeToString(h.Sum(nil)[:10])
}
