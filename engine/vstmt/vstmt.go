// Package vstmt is the target of the statement-level instrumentation that
// tools/stmtpoints inserts into selected repository functions (through the
// build overlay only).  Without a hook installed At is a no-op.
package vstmt

import "sync/atomic"

var hook atomic.Pointer[func(string)]

// Set installs (or, with nil, removes) the hook called at every instrumented statement.
func Set(f func(label string)) {
	if f == nil {
		hook.Store(nil)
		return
	}
	hook.Store(&f)
}

func At(label string) {
	if p := hook.Load(); p != nil {
		(*p)(label)
	}
}
