// stmtpoints instruments selected functions of one Go source file with
// statement-level hook calls:  vstmt.At("<func>#<k>")  is inserted before
// every statement of every block of the named functions (methods are matched
// by bare name).  The rest of the file is reproduced from its AST, so whatever
// the working tree holds -- including a modified version of the function -- is
// what gets compiled.
//
//	stmtpoints <in.go> <out.go> <vstmt import path> <func1,func2,...>
package main

import (
	"fmt"
	"go/ast"
	"go/parser"
	"go/printer"
	"go/token"
	"os"
	"strconv"
	"strings"
)

func main() {
	if len(os.Args) != 5 {
		fmt.Fprintln(os.Stderr, "usage: stmtpoints in.go out.go importpath f1,f2")
		os.Exit(2)
	}
	in, out, imp := os.Args[1], os.Args[2], os.Args[3]
	want := map[string]bool{}
	for _, f := range strings.Split(os.Args[4], ",") {
		want[f] = true
	}
	fset := token.NewFileSet()
	file, err := parser.ParseFile(fset, in, nil, parser.ParseComments)
	if err != nil {
		fmt.Fprintln(os.Stderr, err)
		os.Exit(1)
	}
	n := 0
	for _, d := range file.Decls {
		fd, ok := d.(*ast.FuncDecl)
		if !ok || fd.Body == nil || !want[fd.Name.Name] {
			continue
		}
		k := 0
		instrumentBlock(fd.Body, fd.Name.Name, &k)
		n += k
	}
	if n == 0 {
		fmt.Fprintf(os.Stderr, "stmtpoints: none of %s found in %s\n", os.Args[4], in)
		os.Exit(3)
	}
	// add the import as its own declaration right after the package clause
	file.Decls = append([]ast.Decl{&ast.GenDecl{Tok: token.IMPORT, Specs: []ast.Spec{
		&ast.ImportSpec{Name: ast.NewIdent("vstmt"), Path: &ast.BasicLit{Kind: token.STRING, Value: strconv.Quote(imp)}},
	}}}, file.Decls...)
	// dropping comments keeps the printer from misplacing them around inserted nodes;
	// build constraints must survive
	var keep []*ast.CommentGroup
	for _, cg := range file.Comments {
		if cg.End() < file.Package {
			keep = append(keep, cg)
		}
	}
	file.Comments = keep
	f, err := os.Create(out)
	if err != nil {
		fmt.Fprintln(os.Stderr, err)
		os.Exit(1)
	}
	defer f.Close()
	if err := printer.Fprint(f, fset, file); err != nil {
		fmt.Fprintln(os.Stderr, err)
		os.Exit(1)
	}
}

func hook(fn string, k int) ast.Stmt {
	return &ast.ExprStmt{X: &ast.CallExpr{
		Fun:  &ast.SelectorExpr{X: ast.NewIdent("vstmt"), Sel: ast.NewIdent("At")},
		Args: []ast.Expr{&ast.BasicLit{Kind: token.STRING, Value: strconv.Quote(fmt.Sprintf("%s#%d", fn, k))}},
	}}
}

func instrumentList(list []ast.Stmt, fn string, k *int) []ast.Stmt {
	var out []ast.Stmt
	for _, s := range list {
		instrumentStmt(s, fn, k)
		if _, isLabeled := s.(*ast.LabeledStmt); !isLabeled {
			out = append(out, hook(fn, *k))
			*k++
		}
		out = append(out, s)
	}
	return out
}

func instrumentBlock(b *ast.BlockStmt, fn string, k *int) {
	if b != nil {
		b.List = instrumentList(b.List, fn, k)
	}
}

func instrumentStmt(s ast.Stmt, fn string, k *int) {
	switch x := s.(type) {
	case *ast.BlockStmt:
		instrumentBlock(x, fn, k)
	case *ast.IfStmt:
		instrumentBlock(x.Body, fn, k)
		if x.Else != nil {
			instrumentStmt(x.Else, fn, k)
		}
	case *ast.ForStmt:
		instrumentBlock(x.Body, fn, k)
	case *ast.RangeStmt:
		instrumentBlock(x.Body, fn, k)
	case *ast.SwitchStmt:
		instrumentBlock2(x.Body, fn, k)
	case *ast.TypeSwitchStmt:
		instrumentBlock2(x.Body, fn, k)
	case *ast.SelectStmt:
		instrumentBlock2(x.Body, fn, k)
	case *ast.LabeledStmt:
		instrumentStmt(x.Stmt, fn, k)
	}
}

// bodies of switch/select: the clauses themselves are not statements one can
// put a call in front of; their bodies are.
func instrumentBlock2(b *ast.BlockStmt, fn string, k *int) {
	for _, c := range b.List {
		switch cc := c.(type) {
		case *ast.CaseClause:
			cc.Body = instrumentList(cc.Body, fn, k)
		case *ast.CommClause:
			cc.Body = instrumentList(cc.Body, fn, k)
		}
	}
}
