module stmtpoints

go 1.23
